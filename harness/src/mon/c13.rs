//! C13 — cube picking returns implicants and honours the caller's choices

use std::hash::BuildHasherDefault;

use oxidd::util::{OptBool, SatCountCache};
use oxidd::{BooleanFunction, Edge, HasLevel, HasWorkers, Manager, ManagerRef, Node};
use oxidd_core::function::INodeOfFunc;

use crate::kinds::*;
use crate::mon::c02::All3;
use crate::rng::all_perms;
use crate::tt::Tt;
use crate::Ctx;

type Cache = SatCountCache<oxidd::util::num::F64, BuildHasherDefault<oxidd::util::FxHasher>>;

fn ob(o: OptBool) -> Option<bool> {
    match o {
        OptBool::None => None,
        OptBool::False => Some(false),
        OptBool::True => Some(true),
    }
}

/// cube (by variable) -> table
fn cube_tt(n: u32, c: &[Option<bool>]) -> Tt {
    let lits: Vec<(u32, bool)> = c.iter().enumerate().filter_map(|(v, b)| b.map(|b| (v as u32, b))).collect();
    Tt::cube(n, &lits)
}

/// What was requested per level: the caller's choice function result (if called), or the
/// polarity in the literal set.
pub enum Wish<'a> {
    /// calls recorded by the choice closure: per level Some(returned value)
    Choice(&'a [Option<bool>]),
    /// literal set: per variable Some(polarity)
    Literals(&'a [Option<bool>]),
}

/// Check a picked cube (given per variable) against the reference walk over truth tables.
/// Returns Err(clause, detail) on the first violated clause.
pub fn check_cube(sem: Sem, f: &Tt, order: &[u32], cube: &[Option<bool>], wish: &Wish) -> Result<(), (String, String)> {
    let n = f.n;
    let ct = cube_tt(n, cube);
    if ct.is_zero() || !ct.implies(f) {
        return Err(("not-an-implicant".into(), format!("cube {cube:?}")));
    }
    let mut g = f.clone();
    for (l, &v) in order.iter().enumerate() {
        let g1 = g.cofactor(v, true);
        let g0 = g.cofactor(v, false);
        let actual = cube[v as usize];
        let called = match wish {
            Wish::Choice(c) => c[l],
            Wish::Literals(_) => None,
        };
        if g1.is_zero() || g0.is_zero() {
            // forced (or, for g == 0, impossible: excluded by the implicant check)
            let forced = g0.is_zero();
            if sem != Sem::ZeroSup && g1 == g0 {
                unreachable!();
            }
            if actual != Some(forced) {
                return Err(("forced-value-not-taken".into(), format!("var {v} must be {forced}, cube {cube:?}")));
            }
        } else if sem != Sem::ZeroSup && g1 == g0 {
            // BDD/BCDD: no node for v on this path: must stay don't care, choice must not be consulted
            if actual.is_some() {
                return Err(("dont-care-variable-assigned".into(), format!("var {v} is irrelevant here, cube {cube:?}")));
            }
            if called.is_some() {
                return Err(("choice-called-without-node".into(), format!("level {l}")));
            }
        } else {
            // genuine choice (ZBDD: also when g1 == g0, the node exists with hi == lo)
            match wish {
                Wish::Choice(_) => match called {
                    Some(c) => {
                        if actual != Some(c) {
                            return Err(("choice-not-followed".into(), format!("level {l} var {v}: choice {c}, cube {cube:?}")));
                        }
                    }
                    None => {
                        if sem != Sem::ZeroSup {
                            return Err(("choice-not-consulted".into(), format!("level {l} var {v} cube {cube:?}")));
                        }
                        if actual.is_some() && g1 != g0 {
                            // ZBDD may only leave it open (None) or decide without asking when forced
                            return Err(("choice-not-consulted".into(), format!("level {l} var {v} cube {cube:?}")));
                        }
                    }
                },
                Wish::Literals(ls) => {
                    if let Some(p) = ls[v as usize] {
                        if actual != Some(p) {
                            return Err(("literal-polarity-not-followed".into(), format!("var {v} wanted {p}, cube {cube:?}")));
                        }
                    }
                    // variable not in the literal set: arbitrary choice allowed
                }
            }
        }
        g = match actual {
            Some(true) => g1,
            Some(false) => g0,
            None => {
                // expanding either way must stay inside f (already guaranteed by the implicant check);
                // continue with the conjunction so later forced-ness is judged on what both branches allow
                g1.and(&g0)
            }
        };
    }
    Ok(())
}

fn run_kind<K: BoolKind>(ctx: &mut Ctx, order: &[u32])
where
    for<'id> MgrOf<'id, K>: HasWorkers,
    for<'x> INodeOfFunc<'x, K::F>: HasLevel,
{
    let n = 3u32;
    let all = All3::<K>::build(ctx, n, order, 1, 1 << 14, 1 << 10);
    let k = K::NAME;
    let tt = |b: usize| Tt::from_u64(n, b as u64);
    for a in 0..256usize {
        let f = &all.funcs[a];
        let ta = tt(a);
        // --- pick_cube / pick_cube_dd with all 8 choice vectors (indexed by level)
        for ch in 0..8u32 {
            let mut calls: Vec<Option<bool>> = vec![None; n as usize];
            let mut proto: Vec<String> = Vec::new();
            let r = f.pick_cube(|m, e, l| {
                let lv = l as usize;
                if lv >= calls.len() {
                    proto.push(format!("choice called with level {l} >= num_levels"));
                    return false;
                }
                if calls[lv].is_some() {
                    proto.push(format!("choice called twice for level {l}"));
                }
                match m.get_node(e) {
                    Node::Inner(node) => {
                        if node.level() != l {
                            proto.push(format!("choice got an edge at level {} for level {l}", node.level()));
                        }
                    }
                    Node::Terminal(_) => proto.push(format!("choice got a terminal edge for level {l}")),
                }
                let c = (ch >> l) & 1 == 1;
                calls[lv] = Some(c);
                c
            });
            ctx.eval();
            for p in &proto {
                ctx.violation(&format!("{k}:pick_cube:choice-protocol"), format!("order {order:?} f={ta} choice {ch:03b}: {p}"));
            }
            match (&r, ta.is_zero()) {
                (None, true) => {}
                (None, false) | (Some(_), true) => ctx.violation(
                    &format!("{k}:pick_cube:none-iff-unsat"),
                    format!("order {order:?} f={ta} got {:?}", r.is_some()),
                ),
                (Some(c), false) => {
                    if c.len() != n as usize {
                        ctx.violation(&format!("{k}:pick_cube:length"), format!("f={ta} len {}", c.len()));
                        continue;
                    }
                    let cube: Vec<Option<bool>> = c.iter().map(|&o| ob(o)).collect();
                    if let Err((clause, d)) = check_cube(K::SEM, &ta, order, &cube, &Wish::Choice(&calls)) {
                        ctx.violation(&format!("{k}:pick_cube:{clause}"), format!("order {order:?} f={ta} choice(by level) {ch:03b}: {d}"));
                    } else if calls.iter().any(|c| c.is_some()) {
                        ctx.distinct((k, "pc", a, ch, order[0], order[1]));
                    }
                    // pick_cube_dd with the same choice function describes the same cube
                    let d = f.pick_cube_dd(|_, _, l| (ch >> l) & 1 == 1).unwrap();
                    let dt = all.table_of(ctx, &d, &|| format!("pick_cube_dd({ta})"));
                    ctx.eval();
                    let ct = cube_tt(n, &cube);
                    if dt != ct {
                        // ZBDD don't-cares: the DD may fix a variable the vector leaves open only if
                        // both describe implicants following the same choices; require equality for BDD/BCDD
                        let zbdd_ok = K::SEM == Sem::ZeroSup && !dt.is_zero() && dt.implies(&ta) && dt.implies(&ct);
                        if !zbdd_ok {
                            ctx.violation(
                                &format!("{k}:pick_cube_dd:differs-from-pick_cube"),
                                format!("order {order:?} f={ta} choice {ch:03b}: vector {cube:?} dd {dt}"),
                            );
                        }
                    }
                }
            }
            if ta.is_zero() {
                let d = f.pick_cube_dd(|_, _, l| (ch >> l) & 1 == 1).unwrap();
                ctx.check(!d.satisfiable(), &format!("{k}:pick_cube_dd:false-for-unsat"), || format!("order {order:?}"));
            }
        }
        // --- pick_cube_dd_set with all 27 literal sets
        for ls in 0..27u32 {
            let mut lits: Vec<Option<bool>> = Vec::new();
            let mut x = ls;
            for _ in 0..n {
                lits.push(match x % 3 {
                    0 => None,
                    1 => Some(true),
                    _ => Some(false),
                });
                x /= 3;
            }
            let lit_list: Vec<(u32, bool)> = lits.iter().enumerate().filter_map(|(v, b)| b.map(|b| (v as u32, b))).collect();
            let set_t = Tt::cube(n, &lit_list);
            let set_f = &all.funcs[set_t.as_u64() as usize];
            let r = f.pick_cube_dd_set(set_f).unwrap();
            let rt = all.table_of(ctx, &r, &|| format!("pick_cube_dd_set({ta}, {lits:?})"));
            ctx.eval();
            if ta.is_zero() {
                if !rt.is_zero() {
                    ctx.violation(&format!("{k}:pick_cube_dd_set:false-for-unsat"), format!("order {order:?} lits {lits:?} got {rt}"));
                }
                continue;
            }
            match rt.as_cube() {
                None => ctx.violation(
                    &format!("{k}:pick_cube_dd_set:not-a-cube"),
                    format!("order {order:?} f={ta} lits {lits:?} result {rt}"),
                ),
                Some(cube) => {
                    if let Err((clause, d)) = check_cube(K::SEM, &ta, order, &cube, &Wish::Literals(&lits)) {
                        ctx.violation(
                            &format!("{k}:pick_cube_dd_set:{clause}"),
                            format!("order {order:?} f={ta} literal set {lits:?}: result {rt}: {d}"),
                        );
                    } else if !lit_list.is_empty() {
                        ctx.distinct((k, "pcs", a, ls, order[0], order[1]));
                    }
                }
            }
        }
    }
    ctx.sample(|| format!("{k} order {order:?}: 256 functions x 8 choice vectors (pick_cube, pick_cube_dd) x 27 literal sets (pick_cube_dd_set), e.g. f=3v:0xe8 choice 101 / literals [Some(false), None, Some(true)]"));
}

pub fn exhaustive(ctx: &mut Ctx) {
    let orders = all_perms(3);
    let mut i = 0;
    for order in &orders {
        for kind in 0..3 {
            let mine = ctx.mine(i);
            i += 1;
            if !mine {
                continue;
            }
            match kind {
                0 => run_kind::<Bdd>(ctx, order),
                1 => run_kind::<Bcdd>(ctx, order),
                _ => run_kind::<Zbdd>(ctx, order),
            }
            ctx.count("configs", 1);
        }
    }
}

fn random_kind<K: BoolKind>(ctx: &mut Ctx, rng: &mut crate::rng::Rng, cases: usize)
where
    for<'id> MgrOf<'id, K>: HasWorkers,
    for<'x> INodeOfFunc<'x, K::F>: HasLevel,
{
    let k = K::NAME;
    for _ in 0..cases {
        let n = rng.range(4, 8) as u32;
        let mref = setup::<K>(1 << 16, 1 << 10, 1, n);
        let order = rng.perm(n as usize);
        set_order(&mref, &order);
        for _ in 0..6 {
            let t = Tt::random_biased(n, rng);
            let f = build_shannon::<K>(&mref, &t);
            // choice-based
            let chbits = rng.next() as u32;
            let mut calls: Vec<Option<bool>> = vec![None; n as usize];
            let r = f.pick_cube(|_, _, l| {
                let c = (chbits >> l) & 1 == 1;
                calls[l as usize] = Some(c);
                c
            });
            ctx.eval();
            match r {
                None => {
                    if !t.is_zero() {
                        ctx.violation(&format!("{k}:pick_cube:none-iff-unsat"), format!("f={t}"));
                    }
                }
                Some(c) => {
                    let cube: Vec<Option<bool>> = c.iter().map(|&o| ob(o)).collect();
                    if t.is_zero() {
                        ctx.violation(&format!("{k}:pick_cube:none-iff-unsat"), format!("f={t}"));
                    } else if let Err((clause, d)) = check_cube(K::SEM, &t, &order, &cube, &Wish::Choice(&calls)) {
                        ctx.violation(&format!("{k}:pick_cube:{clause}"), format!("order {order:?} f={t} choice bits {chbits:#x}: {d}"));
                    } else {
                        ctx.distinct((k, "pc", &t, chbits & ((1 << n) - 1)));
                    }
                    let d = f.pick_cube_dd(|_, _, l| (chbits >> l) & 1 == 1).unwrap();
                    let dt = interp_tt::<K>(&d);
                    let ct = cube_tt(n, &cube);
                    ctx.eval();
                    let ok = dt == ct || (K::SEM == Sem::ZeroSup && !dt.is_zero() && dt.implies(&t) && dt.implies(&ct));
                    if !ok {
                        ctx.violation(&format!("{k}:pick_cube_dd:differs-from-pick_cube"), format!("order {order:?} f={t}: vector {cube:?} dd {dt}"));
                    }
                }
            }
            // literal set
            let lits: Vec<Option<bool>> = (0..n).map(|_| match rng.below(3) { 0 => None, 1 => Some(true), _ => Some(false) }).collect();
            let lit_list: Vec<(u32, bool)> = lits.iter().enumerate().filter_map(|(v, b)| b.map(|b| (v as u32, b))).collect();
            let set_f = build_shannon::<K>(&mref, &Tt::cube(n, &lit_list));
            let r = f.pick_cube_dd_set(&set_f).unwrap();
            let rt = interp_tt::<K>(&r);
            ctx.eval();
            if t.is_zero() {
                if !rt.is_zero() {
                    ctx.violation(&format!("{k}:pick_cube_dd_set:false-for-unsat"), format!("lits {lits:?}"));
                }
            } else {
                match rt.as_cube() {
                    None => ctx.violation(&format!("{k}:pick_cube_dd_set:not-a-cube"), format!("order {order:?} f={t} lits {lits:?} result {rt}")),
                    Some(cube) => {
                        if let Err((clause, d)) = check_cube(K::SEM, &t, &order, &cube, &Wish::Literals(&lits)) {
                            ctx.violation(&format!("{k}:pick_cube_dd_set:{clause}"), format!("order {order:?} f={t} literal set {lits:?}: result {rt}: {d}"));
                        } else {
                            ctx.distinct((k, "pcs", &t, &lits));
                        }
                    }
                }
            }
        }
    }
}

pub fn random(ctx: &mut Ctx) {
    let mut rng = ctx.rng(0xC13);
    let cases = ctx.by_tier(30, 3000);
    random_kind::<Bdd>(ctx, &mut rng, cases);
    random_kind::<Bcdd>(ctx, &mut rng, cases);
    random_kind::<Zbdd>(ctx, &mut rng, cases);
    ctx.sample(|| "random: n in 4..8, random order, random biased functions, random choice bits and literal sets".into());
}

/// pick_cube_uniform: never a non-model; chi-square against the uniform distribution over models
fn uniform_kind<K: BoolKind>(ctx: &mut Ctx, draws: usize)
where
    for<'id> MgrOf<'id, K>: HasWorkers,
    for<'x> INodeOfFunc<'x, K::F>: HasLevel,
{
    let k = K::NAME;
    let n = 4u32;
    let mref = setup::<K>(1 << 14, 1 << 10, 1, n);
    let mut frng = crate::rng::Rng::new(0x5EED_0001 + ctx.shard as u64); // fixed seeds: statistical test
    let tables: Vec<Tt> = vec![
        Tt::from_u64(4, 0xfffe),
        Tt::from_u64(4, 0x8001),
        Tt::from_u64(4, 0x6996),
        Tt::from_u64(4, 0x0f35),
        Tt::from_u64(4, 0x17e8),
        Tt::random(4, &mut frng),
        Tt::random(4, &mut frng),
    ];
    for (ti, t) in tables.iter().enumerate() {
        if !ctx.mine(ti) {
            continue;
        }
        let f = build_shannon::<K>(&mref, t);
        let models = t.count_ones() as usize;
        let mut cache: Cache = Default::default();
        cache.cache_all = true;
        let mut orng = oxidd::util::Rng::new_seed(0xABCD_0000 + ti as u64);
        let mut hits = vec![0f64; 1 << n];
        let mut bad = 0usize;
        for _ in 0..draws {
            let Some(c) = f.pick_cube_uniform(&mut cache, &mut orng) else {
                if !t.is_zero() {
                    ctx.violation(&format!("{k}:pick_cube_uniform:none-for-sat"), format!("f={t}"));
                }
                break;
            };
            let cube: Vec<Option<bool>> = c.iter().map(|&o| ob(o)).collect();
            let ct = cube_tt(n, &cube);
            if ct.is_zero() || !ct.implies(t) {
                bad += 1;
                if bad <= 2 {
                    ctx.violation(&format!("{k}:pick_cube_uniform:non-model"), format!("f={t} cube {cube:?}"));
                }
                continue;
            }
            // expand don't cares uniformly: each total valuation gets weight 1/2^dc
            let w = 1.0 / ct.count_ones() as f64;
            for a in 0..(1usize << n) {
                if ct.get(a) {
                    hits[a] += w;
                }
            }
        }
        ctx.evals(draws as u64);
        if t.is_zero() {
            let r = f.pick_cube_uniform(&mut cache, &mut orng);
            ctx.check(r.is_none(), &format!("{k}:pick_cube_uniform:some-for-unsat"), || String::new());
            continue;
        }
        // chi-square over models; expected draws/models each. With fractional weights the variance is
        // not larger than for integer counts, so the test is conservative in the safe direction only if
        // the cubes are minterms; we therefore use a very wide threshold (p < 1e-9 for integer counts).
        let exp = draws as f64 / models as f64;
        let chi2: f64 = (0..(1usize << n)).filter(|&a| t.get(a)).map(|a| (hits[a] - exp).powi(2) / exp).sum();
        let df = (models - 1).max(1) as f64;
        // Wilson-Hilferty upper bound for chi-square quantile at z = 6.2 (p ~ 3e-10)
        let z = 6.2f64;
        let thr = df * (1.0 - 2.0 / (9.0 * df) + z * (2.0 / (9.0 * df)).sqrt()).powi(3);
        ctx.eval();
        if models > 1 && chi2 > thr {
            ctx.violation(
                &format!("{k}:pick_cube_uniform:biased"),
                format!("f={t}: chi2 {chi2:.1} > {thr:.1} (df {df}) after {draws} draws; per-model weights {:?}", hits.iter().map(|h| h.round() as i64).collect::<Vec<_>>()),
            );
        }
        ctx.distinct((k, "uniform", t));
        ctx.count("uniform_draws", draws as u64);
        ctx.sample(|| format!("{k} pick_cube_uniform f={t}: {draws} draws, chi2 {chi2:.1} (threshold {thr:.1})"));
    }
}

/// pick_cube_uniform with ONE cache object kept across reorderings, other handles and gc: the
/// cache must be invalidated by whatever recycles node slots (documented: "the cache is
/// invalidated on gc and reordering"), otherwise counts of other functions steer the sampling.
fn uniform_reuse_kind<K: BoolKind>(ctx: &mut Ctx, draws: usize)
where
    for<'id> MgrOf<'id, K>: HasWorkers,
    for<'x> INodeOfFunc<'x, K::F>: HasLevel,
{
    let k = K::NAME;
    let n = 6u32;
    let mut frng = crate::rng::Rng::new(0x5EED_0002 + ctx.shard as u64 * 31); // fixed seeds: statistical test
    let rounds = ctx.by_tier(1, 4);
    for round in 0..rounds {
        let mref = setup::<K>(1 << 14, 1 << 10, 1, n);
        let t = Tt::random(n, &mut frng);
        let t2 = Tt::random_biased(n, &mut frng);
        let f = build_shannon::<K>(&mref, &t);
        let g = build_shannon::<K>(&mref, &t2);
        let mut cache: Cache = Default::default();
        cache.cache_all = true;
        let mut orng = oxidd::util::Rng::new_seed(0xABCD_1000 + round as u64 + ctx.shard as u64 * 7);
        let mut phase = |ctx: &mut Ctx, h: &K::F, t: &Tt, what: &str, cache: &mut Cache| {
            let models = t.count_ones() as usize;
            if models < 2 {
                return;
            }
            let mut hits = vec![0f64; 1 << n];
            for _ in 0..draws {
                let Some(c) = h.pick_cube_uniform(cache, &mut orng) else {
                    ctx.violation(&format!("{k}:pick_cube_uniform:none-for-sat"), format!("{what}: f={t}"));
                    return;
                };
                let cube: Vec<Option<bool>> = c.iter().map(|&o| ob(o)).collect();
                let ct = cube_tt(n, &cube);
                if ct.is_zero() || !ct.implies(t) {
                    ctx.violation(&format!("{k}:pick_cube_uniform:non-model"), format!("{what}: f={t} cube {cube:?}"));
                    return;
                }
                let w = 1.0 / ct.count_ones() as f64;
                for a in 0..(1usize << n) {
                    if ct.get(a) {
                        hits[a] += w;
                    }
                }
            }
            ctx.evals(draws as u64);
            let exp = draws as f64 / models as f64;
            let chi2: f64 = (0..(1usize << n)).filter(|&a| t.get(a)).map(|a| (hits[a] - exp).powi(2) / exp).sum();
            let df = (models - 1).max(1) as f64;
            let z = 6.2f64;
            let thr = df * (1.0 - 2.0 / (9.0 * df) + z * (2.0 / (9.0 * df)).sqrt()).powi(3);
            if chi2 > thr {
                ctx.violation(
                    &format!("{k}:pick_cube_uniform:biased-with-reused-cache"),
                    format!("{what}: f={t}: chi2 {chi2:.1} > {thr:.1} (df {df}) after {draws} draws"),
                );
            } else {
                ctx.distinct((k, "uniform-reuse", what.to_string(), t.clone()));
            }
            ctx.count("uniform_draws_reused_cache", draws as u64);
        };
        phase(ctx, &f, &t, "fresh cache", &mut cache);
        // garbage, then a reordering that frees and re-uses node slots; no gc in between
        for _ in 0..6 {
            drop(build_shannon::<K>(&mref, &Tt::random(n, &mut frng)));
        }
        let mut order: Vec<u32> = (0..n).rev().collect();
        if round % 2 == 1 {
            order = frng.perm(n as usize);
        }
        set_order(&mref, &order);
        phase(ctx, &f, &t, "same cache after set_var_order", &mut cache);
        phase(ctx, &g, &t2, "same cache, other handle", &mut cache);
        drop(build_shannon::<K>(&mref, &Tt::random(n, &mut frng)));
        mref.with_manager_shared(|m| m.gc());
        for _ in 0..4 {
            drop(build_shannon::<K>(&mref, &Tt::random(n, &mut frng)));
        }
        phase(ctx, &f, &t, "same cache after gc and new nodes", &mut cache);
        set_order(&mref, &(0..n).collect::<Vec<_>>());
        phase(ctx, &g, &t2, "same cache after a second set_var_order", &mut cache);
        // a sampled function is dropped and collected (no reordering): its nodes' ids / addresses are
        // handed out again to the next functions, which are then sampled with the same cache
        for round2 in 0..3 {
            let t3 = Tt::random(n, &mut frng);
            let doomed = build_shannon::<K>(&mref, &t3);
            phase(ctx, &doomed, &t3, "same cache, function that is dropped next", &mut cache);
            drop(doomed);
            mref.with_manager_exclusive(|m| m.gc());
            let t4 = if round2 % 2 == 0 { Tt::random(n, &mut frng) } else { Tt::random_biased(n, &mut frng) };
            let h = build_shannon::<K>(&mref, &t4);
            phase(ctx, &h, &t4, "same cache after the sampled function was dropped and collected", &mut cache);
        }
        ctx.sample(|| format!("{k} pick_cube_uniform with one cache across set_var_order {order:?} / other handle / gc / set_var_order: 5 x {draws} draws, chi-square per phase"));
    }
}

/// One chi-square phase of `draws` uniform picks of `h` (model `t` over `n` variables) with the given cache.
fn uniform_phase<K: BoolKind>(ctx: &mut Ctx, h: &K::F, t: &Tt, n: u32, what: &str, cache: &mut Cache, orng: &mut oxidd::util::Rng, draws: usize, clause: &str) {
    let k = K::NAME;
    let models = t.count_ones() as usize;
    if models < 2 {
        return;
    }
    let mut hits = vec![0f64; 1 << n];
    for _ in 0..draws {
        let Some(c) = h.pick_cube_uniform(cache, orng) else {
            ctx.violation(&format!("{k}:pick_cube_uniform:none-for-sat"), format!("{what}: f={t}"));
            return;
        };
        let cube: Vec<Option<bool>> = c.iter().map(|&o| ob(o)).collect();
        if cube.len() != n as usize {
            ctx.violation(&format!("{k}:pick_cube_uniform:cube-length"), format!("{what}: f={t} cube {cube:?} for {n} variables"));
            return;
        }
        let ct = cube_tt(n, &cube);
        if ct.is_zero() || !ct.implies(t) {
            ctx.violation(&format!("{k}:pick_cube_uniform:non-model"), format!("{what}: f={t} cube {cube:?}"));
            return;
        }
        let w = 1.0 / ct.count_ones() as f64;
        for a in 0..(1usize << n) {
            if ct.get(a) {
                hits[a] += w;
            }
        }
    }
    ctx.evals(draws as u64);
    let exp = draws as f64 / models as f64;
    let chi2: f64 = (0..(1usize << n)).filter(|&a| t.get(a)).map(|a| (hits[a] - exp).powi(2) / exp).sum();
    let df = (models - 1).max(1) as f64;
    let z = 6.2f64;
    let thr = df * (1.0 - 2.0 / (9.0 * df) + z * (2.0 / (9.0 * df)).sqrt()).powi(3);
    if chi2 > thr {
        ctx.violation(&format!("{k}:pick_cube_uniform:{clause}"), format!("{what}: f={t}: chi2 {chi2:.1} > {thr:.1} (df {df}) after {draws} draws"));
    } else {
        ctx.distinct((k, clause.to_string(), what.to_string(), t.clone()));
    }
}

/// pick_cube_uniform with ONE cache kept across `add_vars` (no gc, no reordering in between): the cached
/// model counts are relative to the number of variables, so the function sampled afterwards - a decision
/// node above one already counted child and one fresh child - is sampled with a wrong branch probability
/// unless the cache notices the new variable count (C13-r6m1).
fn uniform_addvars_kind<K: BoolKind>(ctx: &mut Ctx, draws: usize)
where
    for<'id> MgrOf<'id, K>: HasWorkers,
    for<'x> INodeOfFunc<'x, K::F>: HasLevel,
{
    let k = K::NAME;
    let mut frng = crate::rng::Rng::new(0x5EED_0003 + ctx.shard as u64 * 37); // fixed seeds: statistical test
    let rounds = ctx.by_tier(2, 6);
    for round in 0..rounds {
        let n0 = 4u32;
        let added = 1 + (round as u32 + ctx.shard as u32) % 3;
        let n = n0 + added;
        let mref = setup::<K>(1 << 14, 1 << 10, 1, n0);
        // f1 does not depend on x0 and has at least two models
        let mut t1 = Tt::random(n0, &mut frng).cofactor(0, true);
        if t1.count_ones() < 2 || t1.is_one() {
            t1 = Tt::var(n0, 1).or(&Tt::var(n0, 3));
        }
        let f1 = build_shannon::<K>(&mref, &t1);
        let mut cache: Cache = Default::default();
        cache.cache_all = true;
        let mut orng = oxidd::util::Rng::new_seed(0xABCD_2000 + round as u64 + ctx.shard as u64 * 11);
        uniform_phase::<K>(ctx, &f1, &t1, n0, "fresh cache, before add_vars", &mut cache, &mut orng, draws / 4, "biased-with-fresh-cache");
        mref.with_manager_exclusive(|m| {
            m.add_vars(added);
        });
        // what the old handle denotes over the new domain
        let t1x = if K::SEM == Sem::ZeroSup { t1.extend_zero(n) } else { t1.extend(n) };
        ctx.eval();
        if interp_tt::<K>(&f1) != t1x {
            ctx.violation(&format!("{k}:add_vars:handle-changed-function"), format!("f={t1} after add_vars({added})"));
        }
        // g = x0 ? f1 : q, with q over x1.. including the new variables and independent of x0
        let mut q = Tt::random(n, &mut frng).cofactor(0, false);
        if q.is_zero() {
            q = Tt::var(n, n - 1);
        }
        let tg = Tt::var(n, 0).ite(&t1x, &q);
        let g = build_shannon::<K>(&mref, &tg);
        uniform_phase::<K>(ctx, &g, &tg, n, "same cache after add_vars, decision node above a counted and a fresh child", &mut cache, &mut orng, draws, "biased-with-cache-kept-across-add_vars");
        uniform_phase::<K>(ctx, &f1, &t1x, n, "same cache after add_vars, the handle sampled before", &mut cache, &mut orng, draws / 2, "biased-with-cache-kept-across-add_vars");
        ctx.count("uniform_draws_cache_across_add_vars", (draws + draws / 2) as u64);
        ctx.sample(|| format!("{k} pick_cube_uniform with one cache across add_vars({added}): f1={t1}, g = x0 ? f1 : q = {tg}, {draws} draws, chi-square"));
    }
}

/// pick_cube_uniform on managers whose variable count sits at the exponent limits of f64 (the
/// branch probabilities are ratios of model counts over ALL variables: 2^1020 .. 2^1023 are the
/// largest representable scales; from 1024 variables on the counts overflow, see DESIGN 9.3)
fn uniform_wide_kind<K: BoolKind>(ctx: &mut Ctx, n: u32, draws: usize)
where
    for<'id> MgrOf<'id, K>: HasWorkers,
    for<'x> INodeOfFunc<'x, K::F>: HasLevel,
{
    let k = K::NAME;
    let mref = setup::<K>(1 << 14, 1 << 10, 1, n);
    let act = [0u32, n / 2, n - 1];
    let mut frng = crate::rng::Rng::new(0x5EED_0003 + n as u64);
    for round in 0..2 {
        let t = loop {
            let t = Tt::random(3, &mut frng);
            if t.count_ones() >= 2 && t.count_ones() <= 6 {
                break t;
            }
        };
        // f over the three active variables by minterm expansion
        let f = mref.with_manager_shared(|m| {
            let mut f = K::F::f(m);
            for a in 0..8usize {
                if !t.get(a) {
                    continue;
                }
                let mut c = K::F::t(m);
                for (i, &v) in act.iter().enumerate() {
                    let l = if (a >> i) & 1 == 1 { K::F::var(m, v).unwrap() } else { K::F::not_var(m, v).unwrap() };
                    c = c.and(&l).unwrap();
                }
                f = f.or(&c).unwrap();
            }
            f
        });
        let mut cache: Cache = Default::default();
        cache.cache_all = true;
        let mut orng = oxidd::util::Rng::new_seed(0xABCD_3000 + n as u64 + round);
        let mut hits = [0f64; 8];
        for _ in 0..draws {
            let Some(c) = f.pick_cube_uniform(&mut cache, &mut orng) else {
                ctx.violation(&format!("{k}:pick_cube_uniform:none-for-sat"), format!("{n} variables, f={t} over x0, x{}, x{}", act[1], act[2]));
                return;
            };
            let proj: Vec<Option<bool>> = act.iter().map(|&v| ob(c[v as usize])).collect();
            let inside: Vec<usize> = (0..8usize).filter(|&a| (0..3).all(|i| proj[i].map_or(true, |b| b == ((a >> i) & 1 == 1)))).collect();
            if inside.iter().any(|&a| !t.get(a)) {
                ctx.violation(&format!("{k}:pick_cube_uniform:non-model"), format!("{n} variables, f={t}: cube {proj:?} on the active variables"));
                return;
            }
            for &a in &inside {
                hits[a] += 1.0 / inside.len() as f64;
            }
        }
        ctx.evals(draws as u64);
        let models = t.count_ones() as usize;
        let exp = draws as f64 / models as f64;
        let chi2: f64 = (0..8usize).filter(|&a| t.get(a)).map(|a| (hits[a] - exp).powi(2) / exp).sum();
        let df = (models - 1) as f64;
        let thr = df * (1.0 - 2.0 / (9.0 * df) + 6.2 * (2.0 / (9.0 * df)).sqrt()).powi(3);
        if chi2 > thr {
            ctx.violation(
                &format!("{k}:pick_cube_uniform:biased-in-wide-manager"),
                format!("{n} variables, f={t} over x0, x{}, x{}: chi2 {chi2:.1} > {thr:.1} after {draws} draws; weights {:?}", act[1], act[2], hits.iter().map(|h| h.round() as i64).collect::<Vec<_>>()),
            );
        } else {
            ctx.distinct((k, "uniform-wide", n, t.as_u64()));
        }
        ctx.count("uniform_draws_wide", draws as u64);
    }
}

pub fn uniform(ctx: &mut Ctx) {
    for (i, n) in [1019u32, 1020, 1021, 1022, 1023, 65, 128].into_iter().enumerate() {
        if ctx.mine(i) {
            let draws = ctx.by_tier(3000, 30_000);
            uniform_wide_kind::<Bdd>(ctx, n, draws);
            uniform_wide_kind::<Bcdd>(ctx, n, draws);
        }
    }
    let draws = ctx.by_tier(20_000, 200_000);
    uniform_kind::<Bdd>(ctx, draws);
    uniform_kind::<Bcdd>(ctx, draws);
    uniform_kind::<Zbdd>(ctx, draws);
    let draws = ctx.by_tier(20_000, 100_000);
    uniform_reuse_kind::<Bdd>(ctx, draws);
    uniform_reuse_kind::<Bcdd>(ctx, draws);
    uniform_reuse_kind::<Zbdd>(ctx, draws);
    uniform_addvars_kind::<Bdd>(ctx, draws);
    uniform_addvars_kind::<Bcdd>(ctx, draws);
    uniform_addvars_kind::<Zbdd>(ctx, draws);
}

#[allow(unused)]
fn _unused<E: Edge>(_e: &E) {}
