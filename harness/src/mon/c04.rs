//! C04 — quantification, restrict, apply-and-quantify, substitution

use oxidd::{BooleanFunction, HasLevel, HasWorkers, Manager, ManagerRef, Subst};
use oxidd_core::function::INodeOfFunc;

use crate::kinds::*;
use crate::mon::c02::All3;
use crate::rng::all_perms;
use crate::tt::{ALL_BOPS, ALL_QUANTS, Quant, Tt};
use crate::Ctx;

fn qname(q: Quant) -> &'static str {
    match q {
        Quant::Exists => "exists",
        Quant::Forall => "forall",
        Quant::Unique => "unique",
    }
}

fn run_kind<K: BoolKind>(ctx: &mut Ctx, order: &[u32], threads: u32)
where
    for<'id> MgrOf<'id, K>: HasWorkers,
    for<'x> INodeOfFunc<'x, K::F>: HasLevel,
{
    let n = 3u32;
    // small apply cache on some configurations: evictions + key collisions in play
    let cache = if order[0] == 0 { 1 << 12 } else { 64 };
    let all = All3::<K>::build(ctx, n, order, threads, 1 << 16, cache);
    let k = K::NAME;
    let tt = |b: usize| Tt::from_u64(n, b as u64);
    let mut rng = ctx.rng(0xC04 + order[0] as u64 * 7 + order[1] as u64 * 3 + threads as u64 * 100);
    let label = format!("{k} order {order:?} threads {threads}");

    // variable sets as conjunctions of variables
    let set_tt = |mask: u32| Tt::cube(n, &(0..n).filter(|v| (mask >> v) & 1 == 1).map(|v| (v, true)).collect::<Vec<_>>());
    let set_vars = |mask: u32| (0..n).filter(|v| (mask >> v) & 1 == 1).collect::<Vec<_>>();

    // restrict: all f x all 27 literal cubes (all kinds)
    for a in 0..256usize {
        for ls in 0..27u32 {
            let mut lits = Vec::new();
            let mut x = ls;
            for v in 0..n {
                match x % 3 {
                    1 => lits.push((v, true)),
                    2 => lits.push((v, false)),
                    _ => {}
                }
                x /= 3;
            }
            let c = &all.funcs[Tt::cube(n, &lits).as_u64() as usize];
            let r = all.funcs[a].restrict(c).unwrap();
            let rt = all.table_of(ctx, &r, &|| format!("restrict({}, {lits:?})", tt(a)));
            let want = tt(a).restrict(&lits);
            ctx.eval();
            if rt != want {
                ctx.violation(&format!("{k}:restrict:wrong-table"), format!("{label}: restrict({}, {lits:?}) = {rt} want {want}", tt(a)));
            } else if !want.is_const() && !lits.is_empty() {
                ctx.distinct((k, "restrict", a, ls, order[0], order[1]));
            }
        }
    }
    if !K::HAS_QUANT {
        ctx.sample(|| format!("{label}: restrict of all 256 functions by all 27 literal cubes"));
        return;
    }

    // plain quantifiers: all f x 8 sets x 3 quantifiers
    for a in 0..256usize {
        for mask in 0..8u32 {
            let vs = &all.funcs[set_tt(mask).as_u64() as usize];
            for q in ALL_QUANTS {
                let r = K::quant(q, &all.funcs[a], vs).unwrap();
                let rt = all.table_of(ctx, &r, &|| format!("{}({}, {mask:03b})", qname(q), tt(a)));
                let want = tt(a).quant(q, &set_vars(mask));
                ctx.eval();
                if rt != want {
                    ctx.violation(
                        &format!("{k}:{}:wrong-table", qname(q)),
                        format!("{label}: {} {:?}. {} = {rt} want {want}", qname(q), set_vars(mask), tt(a)),
                    );
                } else if !want.is_const() && mask != 0 {
                    ctx.distinct((k, qname(q), a, mask, order[0], order[1]));
                }
            }
        }
    }

    // apply_Q(op, f, g, V): compared with the model AND with Q(op(f,g), V) computed by OxiDD
    let one_in = ctx.by_tier(32u64, 1u64);
    for a in 0..256usize {
        for b in 0..256usize {
            if one_in > 1 && rng.below(one_in) != 0 {
                continue;
            }
            for op in ALL_BOPS {
                let inner = crate::mon::c02::apply_bop(op, &all.funcs[a], &all.funcs[b]);
                let inner_t = tt(a).bop(op, &tt(b));
                for mask in 1..8u32 {
                    let vs = &all.funcs[set_tt(mask).as_u64() as usize];
                    for q in ALL_QUANTS {
                        let r = K::apply_quant(q, op, &all.funcs[a], &all.funcs[b], vs).unwrap();
                        let want = inner_t.quant(q, &set_vars(mask));
                        ctx.eval();
                        let got = all.map.get(&r).map(|&x| tt(x as usize));
                        if got.as_ref() != Some(&want) {
                            let rt = all.table_of(ctx, &r, &|| format!("apply_{}", qname(q)));
                            if rt != want {
                                let two_step = K::quant(q, &inner, vs).unwrap();
                                ctx.violation(
                                    &format!("{k}:apply_{}:{}:wrong-table", qname(q), op.name()),
                                    format!(
                                        "{label}: {} {:?}. ({} {} {}) = {rt} want {want}; two-step result {}",
                                        qname(q), set_vars(mask), tt(a), op.name(), tt(b),
                                        if two_step == r { "identical" } else { "differs" }
                                    ),
                                );
                            }
                        } else if !want.is_const() {
                            ctx.distinct((k, "aq", qname(q), op, a, b, mask, order[0], order[1]));
                        }
                    }
                }
            }
        }
    }

    // substitution: replacement per variable from a palette of 16 functions or "not substituted"
    let palette: Vec<usize> = vec![0x00, 0xff, 0xaa, 0xcc, 0xf0, 0x55, 0x33, 0x0f, 0x88, 0xee, 0x96, 0x69, 0xe8, 0x17, 0xca, 0x3a];
    let one_in_s = ctx.by_tier(8u64, 1u64);
    for r0 in 0..17usize {
        for r1 in 0..17usize {
            for r2 in 0..17usize {
                if (r0, r1, r2) == (16, 16, 16) {
                    continue;
                }
                if one_in_s > 1 && rng.below(one_in_s) != 0 {
                    continue;
                }
                let sel = [r0, r1, r2];
                let mut vars = Vec::new();
                let mut reps = Vec::new();
                let mut model: Vec<Option<Tt>> = vec![None; 3];
                for v in 0..3usize {
                    if sel[v] < 16 {
                        vars.push(v as u32);
                        reps.push(all.funcs[palette[sel[v]]].clone());
                        model[v] = Some(tt(palette[sel[v]]));
                    }
                }
                // one substitution object reused for all 256 functions
                let s = Subst::new(vars.clone(), reps);
                for a in 0..256usize {
                    let r = K::substitute(&all.funcs[a], &s).unwrap();
                    let want = tt(a).compose(&model);
                    ctx.eval();
                    let got = all.map.get(&r).map(|&x| tt(x as usize));
                    if got.as_ref() != Some(&want) {
                        let rt = all.table_of(ctx, &r, &|| "substitute".to_string());
                        if rt != want {
                            ctx.violation(
                                &format!("{k}:substitute:wrong-table"),
                                format!("{label}: {}[{:?} := {:?}] = {rt} want {want}", tt(a), vars,
                                        sel.iter().filter(|&&x| x < 16).map(|&x| tt(palette[x]).hex()).collect::<Vec<_>>()),
                            );
                        }
                    } else if !want.is_const() {
                        ctx.distinct((k, "subst", a, r0, r1, r2, order[0], order[1]));
                    }
                }
            }
        }
    }

    // interleaved substitutions on the same variables with different replacements, gc in between
    for round in 0..ctx.by_tier(40, 4000) {
        let v = rng.below(3) as u32;
        let (p1, p2) = (palette[rng.usize(16)], palette[rng.usize(16)]);
        let s1 = Subst::new(vec![v], vec![all.funcs[p1].clone()]);
        let s2 = Subst::new(vec![v], vec![all.funcs[p2].clone()]);
        for i in 0..12 {
            let a = rng.usize(256);
            let (s, p) = if i % 2 == 0 { (&s1, p1) } else { (&s2, p2) };
            let r = K::substitute(&all.funcs[a], s).unwrap();
            let mut model: Vec<Option<Tt>> = vec![None; 3];
            model[v as usize] = Some(tt(p));
            let want = tt(a).compose(&model);
            let rt = all.table_of(ctx, &r, &|| "substitute(interleaved)".to_string());
            ctx.eval();
            if rt != want {
                ctx.violation(
                    &format!("{k}:substitute:interleaved:wrong-table"),
                    format!("{label}: round {round}: {}[x{v} := {}] = {rt} want {want} (alternating with x{v} := {})", tt(a), tt(p), tt(if i % 2 == 0 { p2 } else { p1 })),
                );
            }
            if i == 5 {
                all.mref.with_manager_shared(|m| m.gc());
                ctx.count("gc_between_substitutions", 1);
            }
        }
    }
    ctx.sample(|| format!("{label}: quantifiers x all f x all var sets; restrict x 27 cubes; apply_Q x pairs x 8 ops x 7 sets; substitute x 17^3 replacement vectors"));
}

pub fn exhaustive(ctx: &mut Ctx) {
    let orders = all_perms(3);
    let mut i = 0;
    for threads in [1u32, 4] {
        for order in &orders {
            for kind in 0..3 {
                if kind == 2 && threads == 4 {
                    continue;
                }
                let mine = ctx.mine(i);
                i += 1;
                if !mine {
                    continue;
                }
                match kind {
                    0 => run_kind::<Bdd>(ctx, order, threads),
                    1 => run_kind::<Bcdd>(ctx, order, threads),
                    _ => run_kind::<Zbdd>(ctx, order, threads),
                }
                ctx.count("configs", 1);
            }
        }
    }
}

fn random_kind<K: BoolKind>(ctx: &mut Ctx, rng: &mut crate::rng::Rng, cases: usize)
where
    for<'id> MgrOf<'id, K>: HasWorkers,
    for<'x> INodeOfFunc<'x, K::F>: HasLevel,
{
    let k = K::NAME;
    for _ in 0..cases {
        let n = rng.range(4, 8) as u32;
        let threads = if rng.chance(1, 3) { 4 } else { 1 };
        let mref = setup::<K>(1 << 16, 1 << rng.range(2, 12), threads, n);
        let depth = *rng.pick(&[0u32, 1, 2, u32::MAX]);
        mref.with_manager_shared(|m| {
            use oxidd::WorkerPool;
            m.workers().set_split_depth(Some(depth))
        });
        let order = rng.perm(n as usize);
        set_order(&mref, &order);
        let fs: Vec<(K::F, Tt)> = (0..6)
            .map(|_| {
                let t = Tt::random_biased(n, rng);
                (build_shannon::<K>(&mref, &t), t)
            })
            .collect();
        for _ in 0..30 {
            let (f, ft) = rng.pick(&fs);
            let (g, gt) = rng.pick(&fs);
            let mask = rng.next() as u32 & ((1 << n) - 1);
            let vars: Vec<u32> = (0..n).filter(|v| (mask >> v) & 1 == 1).collect();
            let vs = build_shannon::<K>(&mref, &Tt::cube(n, &vars.iter().map(|&v| (v, true)).collect::<Vec<_>>()));
            let which = rng.below(4);
            let (r, want, what) = match which {
                0 if K::HAS_QUANT => {
                    let q = *rng.pick(&ALL_QUANTS);
                    (K::quant(q, f, &vs).unwrap(), ft.quant(q, &vars), format!("{} {vars:?}. {ft}", qname(q)))
                }
                1 if K::HAS_QUANT => {
                    let q = *rng.pick(&ALL_QUANTS);
                    let op = *rng.pick(&ALL_BOPS);
                    (
                        K::apply_quant(q, op, f, g, &vs).unwrap(),
                        ft.bop(op, gt).quant(q, &vars),
                        format!("apply_{} {} {vars:?}. {ft} , {gt}", qname(q), op.name()),
                    )
                }
                2 if K::HAS_QUANT => {
                    let mut svars = rng.perm(n as usize);
                    svars.truncate(rng.range(1, n as usize));
                    let mut model: Vec<Option<Tt>> = vec![None; n as usize];
                    let mut reps = Vec::new();
                    for &v in &svars {
                        let (h, ht) = rng.pick(&fs);
                        reps.push(h.clone());
                        model[v as usize] = Some(ht.clone());
                    }
                    let s = Subst::new(svars.clone(), reps);
                    (K::substitute(f, &s).unwrap(), ft.compose(&model), format!("{ft}[{svars:?} := ..]"))
                }
                _ => {
                    let vals = rng.next() as u32 & mask;
                    let lits: Vec<(u32, bool)> = vars.iter().map(|&v| (v, (vals >> v) & 1 == 1)).collect();
                    let c = build_shannon::<K>(&mref, &Tt::cube(n, &lits));
                    (f.restrict(&c).unwrap(), ft.restrict(&lits), format!("restrict({ft}, {lits:?})"))
                }
            };
            let rt = interp_tt::<K>(&r);
            ctx.eval();
            if rt != want {
                ctx.violation(
                    &format!("{k}:random:{}:wrong-table", ["quant", "apply_quant", "substitute", "restrict"][which as usize]),
                    format!("order {order:?} threads {threads} split depth {depth}: {what} = {rt} want {want}"),
                );
            } else if !want.is_const() {
                ctx.distinct((k, which, &want, mask));
            }
        }
    }
}

pub fn random(ctx: &mut Ctx) {
    let mut rng = ctx.rng(0xC04_2);
    let cases = ctx.by_tier(40, 4000);
    random_kind::<Bdd>(ctx, &mut rng, cases);
    random_kind::<Bcdd>(ctx, &mut rng, cases);
    random_kind::<Zbdd>(ctx, &mut rng, cases);
    ctx.sample(|| "random: n in 4..8, random order, threads 1/4 with split depth 0/1/2/MAX, cache 4..4096 entries; quant / apply_quant / substitute / restrict".into());
}

// ------------------------------------------------------------------------------------------
// the trait's default implementations of apply_forall / apply_exists / apply_unique
// ------------------------------------------------------------------------------------------

/// `oxidd_core::function::BooleanFunctionQuant` ships default implementations of the combined
/// apply-and-quantify forms ("naive": operator, then quantifier) for function types that only
/// provide forall/exists/unique. The BDD and BCDD types override them, so nothing else in this
/// harness executes the defaults. This module defines such a function type — a newtype around
/// the real function with derived `Function`/`BooleanFunction` and a hand-written
/// `BooleanFunctionQuant` holding only the required methods — the way the derive macros are
/// meant to be used by downstream code.
mod wrapped {
    use oxidd::util::AllocResult;
    use oxidd_core::function::{BooleanFunction, BooleanFunctionQuant, EdgeOfFunc, Function};

    macro_rules! wrapper {
        ($name:ident, $inner:ty) => {
            #[derive(Clone, PartialEq, Eq, PartialOrd, Ord, Hash, oxidd_derive::Function, oxidd_derive::BooleanFunction)]
            pub struct $name(pub $inner);

            impl BooleanFunctionQuant for $name {
                fn forall_edge<'id>(
                    manager: &Self::Manager<'id>,
                    root: &EdgeOfFunc<'id, Self>,
                    vars: &EdgeOfFunc<'id, Self>,
                ) -> AllocResult<EdgeOfFunc<'id, Self>> {
                    <$inner as BooleanFunctionQuant>::forall_edge(manager, root, vars)
                }
                fn exists_edge<'id>(
                    manager: &Self::Manager<'id>,
                    root: &EdgeOfFunc<'id, Self>,
                    vars: &EdgeOfFunc<'id, Self>,
                ) -> AllocResult<EdgeOfFunc<'id, Self>> {
                    <$inner as BooleanFunctionQuant>::exists_edge(manager, root, vars)
                }
                fn unique_edge<'id>(
                    manager: &Self::Manager<'id>,
                    root: &EdgeOfFunc<'id, Self>,
                    vars: &EdgeOfFunc<'id, Self>,
                ) -> AllocResult<EdgeOfFunc<'id, Self>> {
                    <$inner as BooleanFunctionQuant>::unique_edge(manager, root, vars)
                }
            }
        };
    }
    wrapper!(WBdd, oxidd::bdd::BDDFunction);
    wrapper!(WBcdd, oxidd::bcdd::BCDDFunction);

    #[allow(unused)]
    fn _assert<F: Function + BooleanFunction>() {}
}

fn defaults_kind<K: BoolKind, W>(ctx: &mut Ctx, order: &[u32], wrap: fn(K::F) -> W, unwrap: fn(W) -> K::F)
where
    W: oxidd::BooleanFunctionQuant,
    for<'id> MgrOf<'id, K>: HasWorkers,
    for<'x> INodeOfFunc<'x, K::F>: HasLevel,
{
    let n = 3u32;
    let all = All3::<K>::build(ctx, n, order, 1, 1 << 16, 1 << 10);
    let k = K::NAME;
    let tt = |b: usize| Tt::from_u64(n, b as u64);
    let mut rng = ctx.rng(0xC04_D + order[0] as u64 * 7 + order[1] as u64 * 3);
    let set_tt = |mask: u32| Tt::cube(n, &(0..n).filter(|v| (mask >> v) & 1 == 1).map(|v| (v, true)).collect::<Vec<_>>());
    let set_vars = |mask: u32| (0..n).filter(|v| (mask >> v) & 1 == 1).collect::<Vec<_>>();
    let w: Vec<W> = all.funcs.iter().map(|f| wrap(f.clone())).collect();
    let pairs = ctx.by_tier(400, 20_000);
    for _ in 0..pairs {
        let (a, b) = (rng.usize(256), rng.usize(256));
        for op in ALL_BOPS {
            let inner_t = tt(a).bop(op, &tt(b));
            for mask in 0..8u32 {
                let vs = &w[set_tt(mask).as_u64() as usize];
                for q in ALL_QUANTS {
                    let r = match q {
                        Quant::Exists => w[a].apply_exists(op.to_oxidd(), &w[b], vs),
                        Quant::Forall => w[a].apply_forall(op.to_oxidd(), &w[b], vs),
                        Quant::Unique => w[a].apply_unique(op.to_oxidd(), &w[b], vs),
                    }
                    .unwrap();
                    let r = unwrap(r);
                    let want = inner_t.quant(q, &set_vars(mask));
                    ctx.eval();
                    let got = all.map.get(&r).map(|&x| tt(x as usize));
                    if got.as_ref() != Some(&want) {
                        ctx.violation(
                            &format!("{k}:default-impl:apply_{}:{}:wrong-table", qname(q), op.name()),
                            format!("order {order:?}: {} {:?}. ({} {} {}) = {got:?} want {want}", qname(q), set_vars(mask), tt(a), op.name(), tt(b)),
                        );
                    } else {
                        ctx.distinct((k, "default-aq", qname(q), op, mask, want.as_u64()));
                    }
                }
            }
        }
    }
}

/// apply_forall / apply_exists / apply_unique through the trait's DEFAULT implementations
pub fn defaults(ctx: &mut Ctx) {
    let orders = all_perms(3);
    for (i, order) in orders.iter().enumerate() {
        if ctx.mine(i) {
            defaults_kind::<Bdd, wrapped::WBdd>(ctx, order, wrapped::WBdd, |w| w.0);
            defaults_kind::<Bcdd, wrapped::WBcdd>(ctx, order, wrapped::WBcdd, |w| w.0);
            ctx.count("configs", 1);
        }
    }
    ctx.sample(|| "default implementations of BooleanFunctionQuant::apply_{forall,exists,unique} on a newtype function that only provides the required methods: random operand pairs x 8 operators x 8 variable sets x 3 quantifiers, all 6 orders of 3 variables, bdd and bcdd".into());
}
