//! Structural audit (C03) and reference-count audit (C05); evaluated only at quiescent
//! points under the manager's own shared lock, through the public `Manager` API.

use std::collections::{HashMap, HashSet};

use oxidd::{Edge, HasLevel, InnerNode, Manager, Node, NodeID};
use oxidd_core::{Countable, LevelView};

#[derive(Clone, Copy, PartialEq, Eq, Debug)]
pub enum Rule {
    Bdd,
    Bcdd,
    Zbdd,
    Mtbdd,
    Tdd,
}

pub type Errs = Vec<(String, String)>;

#[derive(Default, Debug)]
pub struct Structure {
    pub nodes: usize,
    /// node id -> (level, children as (id, tag))
    pub node_children: HashMap<NodeID, (u32, Vec<(NodeID, usize)>)>,
    pub ref_counts: HashMap<NodeID, usize>,
    pub errs: Errs,
    pub per_level: Vec<usize>,
}

fn key<E: Edge>(e: &E) -> (NodeID, usize) {
    (e.node_id(), e.tag().as_usize())
}

/// Walk all levels and check every clause of the structural invariant. `is_zero_term` tells
/// whether a terminal is the ZBDD empty set (only used for `Rule::Zbdd`).
pub fn structural<M: Manager>(m: &M, rule: Rule, is_zero_term: &dyn Fn(&M::Terminal) -> bool) -> Structure
where
    M::InnerNode: HasLevel,
{
    use std::borrow::Borrow;
    let mut s = Structure::default();
    let nlev = m.num_levels();
    let nvars = m.num_vars();
    if nlev != nvars {
        s.errs.push(("num_levels!=num_vars".into(), format!("{nlev} vs {nvars}")));
    }
    // var <-> level maps are mutually inverse permutations
    let mut seen = vec![false; nlev as usize];
    for v in 0..nvars {
        let l = m.var_to_level(v);
        if l >= nlev {
            s.errs.push(("var_to_level-out-of-range".into(), format!("var {v} -> level {l}")));
            continue;
        }
        if seen[l as usize] {
            s.errs.push(("var_to_level-not-injective".into(), format!("level {l} hit twice (var {v})")));
        }
        seen[l as usize] = true;
        let back = m.level_to_var(l);
        if back != v {
            s.errs.push(("var-level-maps-not-inverse".into(), format!("var {v} -> level {l} -> var {back}")));
        }
    }
    let mut total = 0usize;
    let mut i = 0u32;
    for level in m.levels() {
        if level.level_no() != i {
            s.errs.push(("level_no-mismatch".into(), format!("view {i} reports {}", level.level_no())));
        }
        let mut dup: HashSet<Vec<(NodeID, usize)>> = HashSet::new();
        let mut count = 0usize;
        for e in level.iter() {
            count += 1;
            if e.tag().as_usize() != 0 {
                s.errs.push(("unique-table-edge-tagged".into(), format!("level {i} node {}", e.node_id())));
            }
            let node = match m.get_node(e) {
                Node::Inner(n) => n,
                Node::Terminal(_) => {
                    s.errs.push(("terminal-in-unique-table".into(), format!("level {i}")));
                    continue;
                }
            };
            let nl = node.level();
            if nl != i {
                s.errs.push((
                    "node-level-differs-from-its-table".into(),
                    format!("node {} stored in level {i} reports level {nl}", e.node_id()),
                ));
            }
            let mut ch = Vec::new();
            let mut child_is_zero_term = Vec::new();
            for c in node.children() {
                ch.push(key(&*c));
                match m.get_node(&*c) {
                    Node::Inner(cn) => {
                        child_is_zero_term.push(false);
                        let cl = cn.level();
                        if cl <= i {
                            s.errs.push((
                                "child-not-below-parent".into(),
                                format!("node {} at level {i} has child {} at level {cl}", e.node_id(), c.node_id()),
                            ));
                        }
                    }
                    Node::Terminal(t) => child_is_zero_term.push(is_zero_term(t.borrow())),
                }
            }
            let reduced_ok = match rule {
                Rule::Bdd | Rule::Mtbdd => ch[0] != ch[1],
                Rule::Bcdd => ch[0] != ch[1] && ch[0].1 == 0,
                Rule::Zbdd => !child_is_zero_term[0],
                Rule::Tdd => !(ch[0] == ch[1] && ch[1] == ch[2]),
            };
            if !reduced_ok {
                s.errs.push((
                    "reduction-rule-violated".into(),
                    format!("{rule:?} node {} at level {i} children {ch:?}", e.node_id()),
                ));
            }
            if !dup.insert(ch.clone()) {
                s.errs.push((
                    "duplicate-node-in-level".into(),
                    format!("level {i}: two nodes with children {ch:?}"),
                ));
            }
            if s.node_children.insert(e.node_id(), (i, ch)).is_some() {
                s.errs.push(("node-listed-twice".into(), format!("node {} (level {i})", e.node_id())));
            }
            s.ref_counts.insert(e.node_id(), node.ref_count());
        }
        if level.len() != count {
            s.errs.push(("level-len-mismatch".into(), format!("level {i}: len() {} iterated {count}", level.len())));
        }
        s.per_level.push(count);
        total += count;
        i += 1;
    }
    if i != nlev {
        s.errs.push(("levels()-count".into(), format!("iterated {i} levels, num_levels {nlev}")));
    }
    let ni = m.num_inner_nodes();
    if ni != total {
        s.errs.push(("num_inner_nodes-mismatch".into(), format!("num_inner_nodes {ni} sum of levels {total}")));
    }
    s.nodes = total;
    // every child must itself be stored (no dangling edges)
    for (id, (l, ch)) in &s.node_children {
        for (cid, _) in ch {
            if !s.node_children.contains_key(cid) {
                // terminal ids are not in node_children; distinguish through get_node is not possible from ids
                // alone, so remember candidates and verify below
                let _ = (id, l);
            }
        }
    }
    s
}

/// Reference-count audit. `external[id]` = number of references the harness knows to exist
/// outside the stored diagram (live handles, ZBDD tautology chain, ...). `inner_ids` decides
/// whether a child id is an inner node.
pub fn refcounts(s: &Structure, external: &HashMap<NodeID, usize>) -> Errs {
    let mut errs = Errs::new();
    let mut expected: HashMap<NodeID, usize> = HashMap::new();
    for (ch_level, ch) in s.node_children.values() {
        let _ = ch_level;
        for (cid, _) in ch {
            if s.node_children.contains_key(cid) {
                *expected.entry(*cid).or_insert(0) += 1;
            }
        }
    }
    for (id, n) in external {
        if s.node_children.contains_key(id) {
            *expected.entry(*id).or_insert(0) += n;
        } else {
            errs.push(("live-reference-to-unstored-node".into(), format!("node id {id} has {n} external refs but is in no level")));
        }
    }
    for (id, rc) in &s.ref_counts {
        let e = expected.get(id).copied().unwrap_or(0);
        if *rc != e {
            let (l, ch) = &s.node_children[id];
            errs.push((
                "ref-count-inexact".into(),
                format!("node {id} (level {l}, children {ch:?}): ref_count() = {rc}, live handles + stored parents = {e}"),
            ));
        }
    }
    errs
}

/// ids reachable from the given roots through stored children
pub fn reachable(s: &Structure, roots: impl IntoIterator<Item = NodeID>) -> HashSet<NodeID> {
    let mut seen = HashSet::new();
    let mut stack: Vec<NodeID> = roots.into_iter().filter(|r| s.node_children.contains_key(r)).collect();
    while let Some(id) = stack.pop() {
        if !seen.insert(id) {
            continue;
        }
        for (c, _) in &s.node_children[&id].1 {
            if s.node_children.contains_key(c) && !seen.contains(c) {
                stack.push(*c);
            }
        }
    }
    seen
}
