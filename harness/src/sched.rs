//! Cooperative, seeded scheduler on OxiDD's verification yield points (cfg oxidd_verif).
//!
//! Registered application threads pass a single token: only the holder runs OxiDD code. At a
//! yield point the holder may hand the token to another runnable thread, according to a
//! strategy: seeded random, or a prescribed decision list (for systematic enumeration with a
//! bounded number of preemptions). Threads that wait for a lock spin through
//! `yield_point("...:blocked")`, so "every unfinished thread is blocked" is detected as a
//! deadlock by the scheduler itself, never by a timeout.

use std::cell::Cell;
use std::sync::atomic::{AtomicPtr, Ordering};
use std::sync::{Condvar, Mutex};

use crate::rng::Rng;

#[derive(Clone, Debug)]
pub enum Strategy {
    /// at every yield point switch with probability 1/`inv_p` to a random runnable thread
    Random { seed: u64, inv_p: u64 },
    /// follow `decisions` (index into the candidate list at each decision point), then default 0
    /// (= stay). `preemptions` bounds voluntary switches beyond the prescribed prefix.
    Prescribed { decisions: Vec<u32>, preemptions: u32 },
    /// PCT-style: random thread priorities, the runnable thread with the highest priority runs;
    /// at `depth` random event indices (below `est_len`) the running thread drops to the lowest
    /// priority. Gives long uninterrupted runs with few, randomly placed preemptions.
    Pct { seed: u64, depth: u32, est_len: u64 },
}

struct State {
    n: usize,
    current: usize,
    started: Vec<bool>,
    done: Vec<bool>,
    blocked: Vec<bool>,
    rng: Rng,
    strategy: Strategy,
    /// (number of candidates, chosen index, was a free choice i.e. current thread could continue)
    pub decision_log: Vec<(u32, u32, bool)>,
    next_decision: usize,
    preemptions_left: u32,
    /// event log: (thread, site hash) — used for the interleaving signature
    sig: u64,
    events: u64,
    switches: u64,
    deadlock: Option<String>,
    last_site: Vec<&'static str>,
    prio: Vec<i64>,
    change_points: Vec<u64>,
    next_low: i64,
}

pub struct Sched {
    st: Mutex<State>,
    cv: Condvar,
}

thread_local! {
    static TID: Cell<Option<usize>> = const { Cell::new(None) };
}
static ACTIVE: AtomicPtr<Sched> = AtomicPtr::new(std::ptr::null_mut());

#[derive(Debug, Clone)]
pub struct Outcome {
    pub signature: u64,
    pub events: u64,
    pub switches: u64,
    pub decision_log: Vec<(u32, u32, bool)>,
    pub deadlock: Option<String>,
}

fn site_hash(s: &str) -> u64 {
    crate::rng::hash64(s.as_bytes())
}

impl Sched {
    pub fn new(n: usize, strategy: Strategy) -> Box<Sched> {
        let (seed, pre) = match &strategy {
            Strategy::Random { seed, .. } => (*seed, 0),
            Strategy::Prescribed { preemptions, .. } => (1, *preemptions),
            Strategy::Pct { seed, .. } => (*seed, 0),
        };
        let mut prng = Rng::new(seed ^ 0x5EED);
        let mut prio: Vec<i64> = (0..n as i64).map(|i| 1000 + i).collect();
        prng.shuffle(&mut prio);
        let change_points: Vec<u64> = match &strategy {
            Strategy::Pct { depth, est_len, .. } => (0..*depth).map(|_| prng.below((*est_len).max(1))).collect(),
            _ => Vec::new(),
        };
        Box::new(Sched {
            st: Mutex::new(State {
                n,
                current: 0,
                started: vec![false; n],
                done: vec![false; n],
                blocked: vec![false; n],
                rng: Rng::new(seed),
                strategy,
                decision_log: Vec::new(),
                next_decision: 0,
                preemptions_left: pre,
                sig: 0xcbf29ce484222325,
                events: 0,
                switches: 0,
                deadlock: None,
                last_site: vec!["<start>"; n],
                prio,
                change_points,
                next_low: 0,
            }),
            cv: Condvar::new(),
        })
    }

    /// choose among candidates (indices of threads); `free`: the current thread is candidate 0 and
    /// could simply continue
    fn choose(st: &mut State, cands: &[usize], free: bool) -> usize {
        if cands.len() == 1 {
            return cands[0];
        }
        let idx = match &st.strategy {
            Strategy::Random { inv_p, .. } => {
                if free {
                    if st.rng.below(*inv_p) == 0 { 1 + st.rng.usize(cands.len() - 1) } else { 0 }
                } else {
                    st.rng.usize(cands.len())
                }
            }
            Strategy::Pct { .. } => {
                // highest priority among the candidates
                let mut best = 0;
                for (i, &t) in cands.iter().enumerate() {
                    if st.prio[t] > st.prio[cands[best]] {
                        best = i;
                    }
                }
                best
            }
            Strategy::Prescribed { decisions, .. } => {
                let d = if st.next_decision < decisions.len() {
                    (decisions[st.next_decision] as usize).min(cands.len() - 1)
                } else {
                    0
                };
                st.next_decision += 1;
                d
            }
        };
        st.decision_log.push((cands.len() as u32, idx as u32, free));
        cands[idx]
    }

    fn pass_and_wait(&self, mut st: std::sync::MutexGuard<'_, State>, me: usize, next: usize) {
        if next != me {
            st.current = next;
            st.switches += 1;
            self.cv.notify_all();
            while st.current != me && st.deadlock.is_none() {
                st = self.cv.wait(st).unwrap();
            }
        }
    }

    fn on_yield(&self, me: usize, site: &'static str) {
        let mut st = self.st.lock().unwrap();
        if st.deadlock.is_some() {
            return;
        }
        debug_assert_eq!(st.current, me);
        st.events += 1;
        if st.change_points.contains(&st.events) {
            st.next_low -= 1;
            st.prio[me] = st.next_low;
        }
        st.sig = (st.sig ^ (site_hash(site).wrapping_add((me as u64).wrapping_mul(0x9E3779B97F4A7C15)))).wrapping_mul(0x100000001b3);
        st.last_site[me] = site;
        let is_blocked = site.ends_with(":blocked");
        st.blocked[me] = is_blocked;
        let others: Vec<usize> = (0..st.n).filter(|&t| t != me && st.started[t] && !st.done[t]).collect();
        if is_blocked {
            // must give way; prefer threads that are not themselves blocked
            let runnable: Vec<usize> = others.iter().copied().filter(|&t| !st.blocked[t]).collect();
            if runnable.is_empty() {
                // everyone (unfinished) waits for a lock: deadlock
                let desc = (0..st.n)
                    .filter(|&t| !st.done[t])
                    .map(|t| format!("thread {t} at {}", st.last_site[t]))
                    .collect::<Vec<_>>()
                    .join(", ");
                st.deadlock = Some(desc);
                self.cv.notify_all();
                return;
            }
            let next = Self::choose(&mut st, &runnable, false);
            self.pass_and_wait(st, me, next);
            return;
        }
        if others.is_empty() {
            return;
        }
        let mut cands = vec![me];
        cands.extend(others);
        let next = Self::choose(&mut st, &cands, true);
        self.pass_and_wait(st, me, next);
    }

    /// Called by a worker thread before it touches OxiDD
    pub fn enter(&self, me: usize) {
        TID.with(|t| t.set(Some(me)));
        let mut st = self.st.lock().unwrap();
        st.started[me] = true;
        self.cv.notify_all();
        // wait until all threads have registered, then until it is our turn
        while (st.started.iter().any(|s| !s) || st.current != me) && st.deadlock.is_none() {
            st = self.cv.wait(st).unwrap();
        }
    }

    /// Called by a worker thread when its script is finished
    pub fn leave(&self, me: usize) {
        TID.with(|t| t.set(None));
        let mut st = self.st.lock().unwrap();
        st.done[me] = true;
        st.blocked[me] = false;
        let others: Vec<usize> = (0..st.n).filter(|&t| !st.done[t]).collect();
        if !others.is_empty() && st.deadlock.is_none() {
            let next = Self::choose(&mut st, &others, false);
            st.current = next;
            st.switches += 1;
        }
        self.cv.notify_all();
    }

    pub fn outcome(&self) -> Outcome {
        let st = self.st.lock().unwrap();
        Outcome {
            signature: st.sig,
            events: st.events,
            switches: st.switches,
            decision_log: st.decision_log.clone(),
            deadlock: st.deadlock.clone(),
        }
    }
}

#[cfg(oxidd_verif)]
fn hook(site: &'static str) {
    let Some(me) = TID.with(|t| t.get()) else { return };
    let p = ACTIVE.load(Ordering::Acquire);
    if p.is_null() {
        return;
    }
    // SAFETY: ACTIVE is only reset after all registered threads have left
    unsafe { &*p }.on_yield(me, site);
}

/// Install the scheduler for the duration of `body` (which spawns the threads that call
/// `enter`/`leave`). Only one scheduler can be active per process at a time.
pub fn with_scheduler<T>(sched: &Sched, body: impl FnOnce() -> T) -> T {
    ACTIVE.store(sched as *const Sched as *mut Sched, Ordering::Release);
    #[cfg(oxidd_verif)]
    oxidd_core::verif::set_yield_hook(Some(hook));
    let r = body();
    #[cfg(oxidd_verif)]
    oxidd_core::verif::set_yield_hook(None);
    ACTIVE.store(std::ptr::null_mut(), Ordering::Release);
    r
}

// ---------------------------------------------------------------------------------------------
// Delay injection for free-running stress: at every yield point, with a seeded probability, the
// thread yields or spins for a short random time. Records an order-sensitive signature.

pub mod delay {
    use std::cell::RefCell;
    use std::sync::atomic::{AtomicU64, Ordering::Relaxed};

    pub static SIGNATURE: AtomicU64 = AtomicU64::new(0);
    pub static EVENTS: AtomicU64 = AtomicU64::new(0);
    pub static DELAYS: AtomicU64 = AtomicU64::new(0);
    static SEED: AtomicU64 = AtomicU64::new(1);
    static INV_P: AtomicU64 = AtomicU64::new(64);

    thread_local! {
        static RNG: RefCell<Option<crate::rng::Rng>> = const { RefCell::new(None) };
    }
    static NEXT_TID: AtomicU64 = AtomicU64::new(1);

    #[cfg(oxidd_verif)]
    fn hook(site: &'static str) {
        RNG.with(|r| {
            let mut r = r.borrow_mut();
            if r.is_none() {
                let tid = NEXT_TID.fetch_add(1, Relaxed);
                *r = Some(crate::rng::Rng::new(crate::rng::mix(SEED.load(Relaxed), tid)));
            }
            let rng = r.as_mut().unwrap();
            let n = EVENTS.fetch_add(1, Relaxed);
            // order-sensitive: mixes the global arrival index with the site
            let h = crate::rng::hash64(site.as_bytes()) ^ n.wrapping_mul(0x9E3779B97F4A7C15);
            SIGNATURE.fetch_xor(h.rotate_left((n % 63) as u32), Relaxed);
            if rng.below(INV_P.load(Relaxed)) == 0 {
                DELAYS.fetch_add(1, Relaxed);
                match rng.below(3) {
                    0 => std::thread::yield_now(),
                    1 => {
                        for _ in 0..rng.below(2000) {
                            std::hint::spin_loop();
                        }
                    }
                    _ => std::thread::sleep(std::time::Duration::from_micros(rng.below(200))),
                }
            }
        });
    }

    pub fn install(seed: u64, inv_p: u64) {
        SEED.store(seed, Relaxed);
        INV_P.store(inv_p.max(1), Relaxed);
        #[cfg(oxidd_verif)]
        oxidd_core::verif::set_yield_hook(Some(hook));
    }
    pub fn uninstall() {
        #[cfg(oxidd_verif)]
        oxidd_core::verif::set_yield_hook(None);
    }
}
