#!/bin/bash
# confirm_seed.sh <deliver-dir e.g. /tmp/mut05/deliver/m1> <id e.g. C05-m1>
# Confirms in a scratch worktree: demo passes without the patch, baseline tests pass with the patch,
# demo fails with the patch. Writes /verif/seeded/<id>/{patch.diff,demo/,meta.json,confirm.log}
set -u
D="$1"; ID="$2"; W=/tmp/seedchk-$ID; OUT=/verif/seeded/$ID
export CARGO_NET_OFFLINE=true CARGO_TARGET_DIR=/tmp/seedchk-target-$ID C07_DEMO_TARGET_DIR=/tmp/seedchk-target-$ID
rm -rf "$W"; git -C /repo worktree add -f "$W/repo" HEAD >/dev/null 2>&1 || { echo "worktree failed"; exit 3; }
mkdir -p "$OUT"; LOG="$OUT/confirm.log"; : > "$LOG"
run_demo() { ( cd "$D/demo" && timeout 1500 bash ./run.sh "$W/repo" ) >>"$LOG" 2>&1; echo $?; }
echo "== demo without patch" >>"$LOG"; R0=$(run_demo)
( cd "$W/repo" && git apply "$D/patch.diff" ) >>"$LOG" 2>&1 || { echo "patch does not apply" | tee -a "$LOG"; }
echo "== baseline with patch" >>"$LOG"
( cd "$W/repo" && timeout 2400 cargo nextest run --workspace --no-fail-fast --test-threads 8 --offline 2>&1 | tail -3 ) >>"$LOG" 2>&1
BASE=$(grep -o '[0-9]* passed' "$LOG" | tail -1)
echo "== demo with patch" >>"$LOG"; R1=$(run_demo)
cp "$D/patch.diff" "$OUT/patch.diff"; rm -rf "$OUT/demo"; cp -r "$D/demo" "$OUT/demo"
python3 - "$D/meta.json" "$OUT/meta.json" "$R0" "$R1" "$BASE" <<'P'
import json,sys
src,dst,r0,r1,base=sys.argv[1:6]
try: m=json.load(open(src))
except Exception: m={}
m["confirmed_by_main"]={"demo_exit_without_patch":int(r0),"demo_exit_with_patch":int(r1),"baseline_with_patch":base,
  "how":"driver/confirm_seed.sh: scratch worktree of /repo HEAD; demo/run.sh without the patch, nextest baseline with the patch, demo/run.sh with the patch"}
json.dump(m,open(dst,"w"),indent=1)
P
git -C /repo worktree remove --force "$W/repo" >/dev/null 2>&1; rm -rf "$W" "/tmp/seedchk-target-$ID"
echo "$ID: demo without patch exit $R0, with patch exit $R1, baseline with patch: $BASE"
