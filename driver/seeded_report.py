#!/usr/bin/env python3
"""Merge detection results into seeded/<id>/meta.json and (re)generate DESIGN.md section 12."""
import json, glob, os, re
ROOT = "/verif"
STRENGTHENED = {
 "C05-m2": "first run: only C15 died on it (DOT/DDDMP export iterates terminals()); C05 had no MTBDD clause. Added monitor c05_mtbdd_terminals (iterate Manager::terminals(), gc, fresh constants, tables + exact terminal count) and cross-listed c10_dd under C05 (thorough).",
 "C06-m1": "first run: caught by C10 only. C06 now also runs c10_dd and c11_exh (operator / operand-order mixes on one manager with caches of 1..4096 entries).",
 "C14-m2": "first run: caught by C10 only. C14 now also runs c10_dd (terminal / inner capacities of 3..6 entries: OutOfMemory, store usable again after gc).",
 "C07-m2": "first run: missed (C07 had no MTBDD scenario, and the window needs gc to sit exactly between its two sweeps). Added c07_mtbdd: results that are bare unreferenced terminals are dropped, fresh constants allocated, the operation recomputed while another thread collects; cooperative scheduler with a new PCT-style strategy + long free-running runs with injected delays; also under TSan.",
 "C08-m2": "first run: missed (needs >= 65536 nodes so that set_var_order takes the concurrent bubble sort). Added c08_large (786k-node BDD on 4 workers, window permutations, order/minimal-swap check, full structural audit, sampled evaluations, canonicity).",
 "C15-m2": "first run: missed (needs a binary node whose variable code is 'relative, offset 0' above an inner child; random byte mutations did not hit it). Added an exhaustive single-byte sweep (every position x every value) of the node section of small binary-mode corpus files + six tiny binary files to the corpus.",
 "C20-m1": "first run: missed (pointer-backend NodeSet undercounts only beyond 32768 nodes). Added a 196k-node corpus item per kind to c20_digest: node_count() vs an independent traversal, digest compared across variants.",

 "C06-r2m1": "round 2, first run: caught by C09 only (ZBDD subset/change cache lookup keyed by level, insert by variable; needs a reordering). Histories (hist.rs) now issue ZBDD set operations (subset0/subset1/change/union/intsec/diff) and C06's hostile generator repeats one set operator for every variable before and after a reordering.",
 "C06-r2m2": "round 2, first run: missed (non-atomic substitution-id counter: needs Subst::new on several threads at once). Added c06_subst_ids: 4 threads x 20000 Subst::new per round, ids compared for uniqueness through the public Substitution::id(), every 64th applied and checked against the model.",
 "C05-r2m1": "round 2, first run: caught by C19 only (EdgeHashMap::insert leaks a reference when the key exists: only the DDDMP exporter inserts an edge twice). Histories now contain DDDMP (ascii/binary) and DOT exports of live handles, so the reference-count audit sees the leak in C01/C03/C05.",
 "C07-r2m2": "round 2, first run: caught by C05 (c05_bg) only (background collector thread keeps a stale free-list head: needs two automatic collections). C07 now also runs c05_bg and every third free-running stress round uses a 150..600-slot store so that the background collector runs repeatedly alongside several application threads.",
 "C14-r2m2": "round 2, first run: missed (DDDMP import leaks already resolved roots when negating a later complemented root fails). Added c14_import: 3-root files exported from bcdd/bdd/zbdd imported into managers of every capacity 0..demand+2 with audit + teardown after each.",
 "C01-r2m2": "round 2b, first run: caught by C10 only (F64 add/sub no longer normalise a freshly generated NaN: two NaN terminals). C01's own jobs covered bdd/bcdd/zbdd only although the property names every DD kind; C01 now also runs c10_dd (MTBDD I64/F64) and c11_rand (TDD), whose history monitors carry the canonicity clauses 'equal value tables <=> identical handles'.",
 "C02-r2m1": "round 2b, first run: missed (only the single-threaded BCDDFunction::imp_strict_edge is wrong; every C02 job used the multi-threaded function types). C02 now runs c02_rand (quick) and c02_pairs (thorough) on the `st` variant, i.e. oxidd built without `multi-threading`.",
 "C02-r2m2": "round 2b, first run: missed (ZBDD eval ignores a later `false` for a variable given twice; all eval calls passed each variable once). c02_pairs now evaluates every function with every variable given twice (complement first) and c02_rand with shuffled argument lists containing repeats and omitted false variables ('the last value counts').",
 "C03-r2m1": "round 2b, first run: missed by C03 and C08 (concurrent bubble sort starts a swap next to one still running; c08_large only shuffled a 6-variable window, which rarely produces two adjacent pending swaps). c08_large now alternates the window shuffles with reversals of the whole order and of 12..24 consecutive levels, and is cross-listed under C03.",
 "C04-r2m1": "round 2b, first run: caught by C06 (c06_subst_ids) only; the substitution clause belongs to C04 as much as to C06, so C04 now runs c06_subst_ids too.",
 "C04-r2m2": "round 2b, first run: missed (wrong arm in the trait's DEFAULT apply_unique, which neither BDD nor BCDD uses). Added c04_defaults: newtype functions with derived Function/BooleanFunction and a hand-written BooleanFunctionQuant holding only the required methods, so the defaults of oxidd-core run; 8 operators x 8 variable sets x 3 quantifiers x random operand pairs x 6 orders.",
 "C09-r2m1": "round 2b, first run: missed (results of the two halves swapped where the parallel recursor's remaining depth reaches 0; every harness manager forced the split depth to MAX, so that point was never reached). Added c02_deep / c04_deep / c09_deep (13..16 variables, 2..8 workers, AUTOMATIC split depth, dense operands) and random split depths 0/1/2/MAX in c04_rand / c09_rand and the MTBDD/TDD monitors.",
 "C13-r2m1": "round 2c, first run: caught by C12 only (reorder() no longer advances the epoch that invalidates SatCountCache: counts of recycled node slots steer pick_cube_uniform; never a non-model, only the distribution is wrong). c13_uniform now keeps ONE cache object across set_var_order without gc, another handle, gc + new nodes and a second reordering, with the chi-square test after each phase.",
 "C15-r2m2": "round 2c, first run: missed (binary importer decodes the escape of byte 0x0d wrongly: only node references beyond 1536 produce that byte). Added c15_large: dense random functions over 12..15 variables (thousands of nodes, 1..3 roots), binary and ASCII, re-imported into the exporting manager (identical handles) and a fresh one (equal tables + audit).",
 "C12-r2m2": "round 2c, first run: missed (SatCountCache keeps the old variable count when the epoch and `vars` change in the same call: a, gc, exactly one count with b, a again). c12_cache changed `vars` only between groups of queries, so a second query with b always repaired the field. Added a scripted sub-history (count with a on several handles, gc or reordering, ONE count with b, all handles with a) and per-query changes of `vars`.",
 "C16-r2m2": "round 2c, first run: missed (pointer-based manager leaves variables of a partly rejected add_named_vars batch without level entries; C16 ran on the index-based manager only). C16 now runs c16_mgr on the `pointer` variant as well; C03 and C20 additionally run c03_hist there and C07 c07_stress.",
 "C20-r2m1": "round 2c, first run: missed (pointer-based manager: add_named_vars no longer clears the apply cache; shows for ZBDDs whose cached result embeds the tautology chain). C06's hostile generator repeated operations across add_vars only; it now picks add_vars or add_named_vars at random, and c06_diff already ran on the pointer variant under C06 and C20.",
 "C20-r2m2": "round 2c, first run: missed (parallel update_levels skips the wrong level when an EMPTY level moves; needs >= 65536 nodes, >= 2 workers and an unused variable). c08_large now has two variables no function depends on, which the reversal rounds move past populated levels, and runs on both node stores under C20.",
 "C01-r3m2": "round 3, first run: missed (WorkerPool::slice_for_each drops the trailing len % chunk elements; only the parallel level-number update of set_var_order uses it: >= 65536 nodes, >= 2 workers, >= 8*workers moved levels with a remainder). c08_large ran on 4 workers only and its reversals always move an even, divisible number of levels. It now runs on 2/3/4/8 workers, mixes window shuffles, 3-cycles, rotations and reversals of stretches of every length (inside one variable block so that the diagram stays above 65536 nodes, restoring the order when it shrank), counts the reorderings that really took the concurrent path and those that moved an odd number of levels (both required), and is cross-listed under C01 and C03.",
 "C03-r3m2": "round 3, first run: missed, same blind spot as C01-r3m2 (slice_for_each hands out pairs and drops the last element of an odd-length slice). Closed by the same restructuring of c08_large.",
 "C03-r3m1": "round 3, first run: caught by C16 only (add_named_vars_from_map takes the adopt-the-map fast path on a manager that already has unnamed variables). C03 now also runs c16_mgr (rel + pointer): num_vars == num_levels, var/level maps inverse, handles intact after every add_vars / add_named_vars / add_named_vars_from_map / rejected call.",
 "C02-r3m1": "round 3: missed by the checks as they stood when it was delivered (the derived `ite_edge` forwarder of the shipped types swaps then/else; every monitor used the handle-level `ite`). c02_api / c04_api / c09_api (every `*_edge` entry point of the shipped types over all 3-variable functions and 6 orders) were written before its first run.",
 "C02-r3m2": "round 3: missed by the checks as they stood when it was delivered (trait-default BooleanFunction::ite_edge; all shipped types override it). c02_api adds function types with a derived Function and a hand-written BooleanFunction containing only the required methods, so every default (ite, not_var, cofactors, not_owned, satisfiable, valid, pick_cube_uniform, handle-level forms) runs against the model.",
 "C04-r3m1": "round 3: missed by the checks as they stood when it was delivered (derived apply_{forall,exists,unique}_edge forwarders swap the operands). Closed by c04_api (see C02-r3m1).",
 "C04-r3m2": "round 3, first run: caught by C10 only (MTBDD restrict ignores the literals below a skipped negative literal). C04 now also runs c10_dd (restrict on sparse MTBDDs with negative literals, through restrict and through operations).",
 "C05-r3m2": "round 3: missed by the checks as they stood when it was delivered (a thread that returns a partly used pre-allocated 64Ki chunk loses its local free list: only stores above 65536 slots). Added c05_probe_large: 66000..150000 slots, allocate-and-free sessions with and without gc inside the session, fill with cubes and one-node functions, live node count measured after a collection under the exclusive lock == capacity.",
 "C06-r3m1": "round 3, first run: caught by C20 only (pointer-based manager: LevelView::gc() collects outside a prepared collection, the apply cache keeps edges to freed nodes). Histories now call LevelView::gc() on every level (Op::LevelGc), C06's hostile generator has the pattern op / drop result / level gc / new nodes / op, and C06 runs c06_diff on the pointer variant itself.",
 "C06-r3m2": "round 3: missed by the checks as they stood when it was delivered (a REJECTED add_named_vars has added the names before the duplicate but does not flush the apply cache). Histories now issue rejected batches (Op::AddNamedVarsRejected: fresh names, then a duplicate) and C06's repeat-across-add_vars pattern picks add_vars / add_named_vars / a rejected batch at random.",
 "C07-r3m1": "round 3, first run: caught (same mechanism as C04-r2m1); C07 now lists c06_subst_ids itself.",
 "C08-r3m1": "round 3, first run: caught by C12 only (reorder() bumps the epoch that invalidates SatCountCache only if the node count shrank). The C08 cases now keep one model-count cache across both reorderings and count every live function AND the functions of its inner nodes down to depth 3 (the root of a surviving handle keeps its id, a stale entry sits below it).",
 "C09-r3m1": "round 3, first run: missed (ZBDD eval keeps its bit set in a thread-local and clears it only on the normal return path; a documented panic for an out-of-range variable leaves it dirty). c02_rand now issues rejected eval calls (out-of-range variable, panicking argument iterator), catches the panic and evaluates sparse valuations on the same thread; C09 cross-lists c02_rand.",
 "C12-r3m2": "round 3, first run: missed (BCDD sat_count cache key puts the complement tag at bit 31: collides with node ids only on the pointer-based manager, where ids are addresses). C12 now runs c12_satcount and c12_cache on the pointer variant.",
 "C13-r3m1": "round 3, first run: missed (pointer-based manager: gc_count() returns the reorder counter, so a plain gc no longer invalidates SatCountCache). C13 now runs c13_rand / c13_uniform on the pointer variant and c13_uniform has a phase that samples a function, drops it, collects, builds new functions on the recycled ids and samples those with the same cache.",
 "C14-r3m2": "round 3, first run: missed (off-by-one in the node store's allocation path for threads bound to ANOTHER manager: writes one slot past the array). Added c14_nested: the capacity sweeps of c14_sweep executed inside a with_manager_shared scope of a second manager.",
 "C15-r3m1": "round 3, first run: missed (binary importer sizes its level table by the file's .nvars instead of the manager's level count). c15_large now also imports every file into a manager with 1..3 additional variables in front, the file's variables mapped onto the last ones.",
 "C15-r3m2": "round 3, first run: missed (name sanitiser mixes char and byte indices: wrong name or panic for a multi-byte character before a blank / control character). The naming schemes now contain such names.",
 "C16-r3m1": "round 3, first run: missed (index-based manager: add_named_vars without its scope guard leaves the names consumed before a PANIC of the name iterator without levels). Histories now call add_named_vars with an iterator that panics after k fresh names, catch the panic and check counts and name lookups; C16 runs c03_hist (rel + pointer).",
 "C17-r3m2": "round 3, first run: missed (Drain::drop returns early when needs_drop::<T>() is false; all C17 monitors used an instance-counting element type, which has drop glue). Added c17_plain: RawTable<u64, _> under random sequences with partially consumed drains.",
 "C18-r3m1": "round 3, first run: missed (DIMACS: a `c vo` tree after name records does not reset the linear order; var_order option). The semantic round trips now also write the order as a tree with name records before and after it.",
 "C20-r3m1": "round 3, first run: missed (pointer-based manager variant of C08-r3m1). Closed by the sub-function counts in the C08 cases, which C20 runs on the pointer variant.",
 "C05-r4m1": "round 4, first run: caught by C14 (c14_nested) only (index-based node store: a thread bound to ANOTHER manager takes a slot from a shared free list but leaves the exhausted list's head in place, so the slot is handed out twice and a live node overwritten). C05 now runs c14_nested (histories with gc and the reference-count audit after every step, executed inside a scope of a second manager).",
 "C07-r4m1": "round 4, first run: caught by C14 (c14_nested) only (freeing a slot from a thread bound to another manager chains it onto the newest shared free list without removing that list: overlapping lists, slots handed out twice). c14_nested now also runs its multi-threaded sweeps inside the outer scope and C07 lists it.",
 "C11-r4m1": "round 4, first run: missed (TDD eval initialises only the first 8 of the 16 two-bit entries per block to `unknown`: omitted variables at levels 8..15 mod 16 evaluate as true; needs >= 9 variables and an argument list that omits the variable). The 40-variable TDD evaluation now repeats every evaluation with the unknown variables omitted.",
 "C01-r4m1": "round 4, first run: caught by C05 (c05_mtbdd_terminals) only (the iterator behind Manager::terminals() hands out edges without acquiring a reference: after an enumeration + gc a live constant's terminal is collected and its id reused, so handles of different constants compare equal). C01 now lists c05_mtbdd_terminals.",
 "C08-r4m1": "round 4, first run: missed (set_var_order skips its second step - moving EMPTY levels into place - when the number of populated levels equals the request length; needs unused variables named in a partial request of exactly that length). Every third c08_rand case now has 1..3 variables no function depends on (per kind: ZBDD families without them) and such a request.",
 "C13-r4m1": "round 4, first run: caught by C12 only (BCDD model counting scales twice at exactly 1021 variables: every F64 count is +inf and pick_cube_uniform always takes the else branch). c13_uniform now samples on managers with 1019..1023 (and 65, 128) variables with a chi-square test on three scattered active variables.",
}
rows = []
for d in sorted(glob.glob(f"{ROOT}/seeded/C*-*m*")):
    sid = os.path.basename(d)
    mp = os.path.join(d, "meta.json")
    if not os.path.exists(mp):
        continue
    m = json.load(open(mp))
    det = json.load(open(os.path.join(d, "detection.json"))) if os.path.exists(os.path.join(d, "detection.json")) else {}
    last = det.get("runs", [{}])[-1].get("results", {}) if det else {}
    m["property"] = m.get("property", sid.split("-")[0])
    m["checks_run_by_main"] = {c: {"exit": v["exit"], "signatures": v["sigs"][:4]} for c, v in last.items()}
    m["detected_by"] = det.get("detected_by", [])
    if sid in STRENGTHENED:
        m["initially_missed_then_strengthened"] = STRENGTHENED[sid]
    json.dump(m, open(mp, "w"), indent=1)
    sigs = "; ".join(sorted({s for v in last.values() for s in v["sigs"][:3]}))[:160]
    conf = m.get("confirmed_by_main", {})
    ok = conf.get("demo_exit_without_patch") == 0 and conf.get("demo_exit_with_patch") not in (0, None) and "86 passed" in str(conf.get("baseline_with_patch"))
    rows.append((sid, m.get("summary", "").replace("|", "/")[:230], (m.get("needs", "") or "").replace("|", "/")[:200], ", ".join(m["detected_by"]) or "-", sigs, "yes" if ok else "pending", sid in STRENGTHENED))
out = ["## 12. Seeded changes: which checks catch which", "",
"Independent agents were given only the text of one property and a scratch worktree of /repo (nothing from /verif) and asked",
"for realistic changes that break the property while compiling and passing the 86 existing tests, each with a demonstration",
"that fails with the change and passes without it. Every change kept here was re-confirmed in a fresh scratch worktree",
"(`driver/confirm_seed.sh`: demo passes without the patch, baseline passes with it, demo fails with it) and then run",
"against the checks with `driver/seedtest.py` (apply to /repo, run the property's quick check, undo). `seeded/<id>/` holds",
"patch.diff, the demonstration, meta.json (property, what it needs to manifest, what was run) and detection.json.", "",
"| id | change | needs | caught by (quick tier) | first signatures | confirmed |", "|---|---|---|---|---|---|"]
for r in rows:
    out.append(f"| {r[0]}{' *' if r[6] else ''} | {r[1]} | {r[2]} | {r[3]} | `{r[4]}` | {r[5]} |")
out += ["", "\\* = missed by the property's own check when first tried; what was strengthened:", ""]
for k, v in STRENGTHENED.items():
    out.append(f"* **{k}** — {v}")
out += ["", f"Summary: {len(rows)} seeded changes, all caught by the quick tier of the check of the property they target after the",
        f"{len(STRENGTHENED)} strengthenings above; none of the strengthenings loosened an oracle, each added workload or a clause.",
        "Reverse patches of the `fix:` commits behave like further seeded changes: each was seen to fire before its fix was applied (section 9).", ""]
p = f"{ROOT}/DESIGN.md"
s = open(p).read()
i = s.find("## 12. Seeded changes")
if i >= 0:
    s = s[:i]
s = s.rstrip() + "\n\n---------------------------------------------------------------------------\n\n" + "\n".join(out)
open(p, "w").write(s)
print(len(rows), "rows")
