#!/usr/bin/env python3
"""Driver for the OxiDD runtime-verification harness (see /verif/DESIGN.md).

  ./check Cxx [--tier quick|thorough] [--seed N]    run the check of one property
  ./check setup                                     build every variant the quick tier needs
  ./check replay <file>                             re-run a recorded witness
  ./check all [--tier ..]                           run all properties

Exit: 0 held on everything explored / 1 VIOLATION / 2 INCONCLUSIVE (never printed as VIOLATION).
"""
import concurrent.futures as cf
import hashlib
import json
import os
import re
import signal
import subprocess
import sys
import time

ROOT = os.path.dirname(os.path.dirname(os.path.abspath(__file__)))
HARNESS = os.path.join(ROOT, "harness")
TARGET = os.path.join(ROOT, "target")
EVID = os.path.join(ROOT, "evidence")
REPLAYS = os.path.join(ROOT, "replays")
NCPU = min(16, os.cpu_count() or 4)

sys.path.insert(0, os.path.dirname(os.path.abspath(__file__)))
from plan import PLAN, VARIANTS  # noqa: E402

BASE_ENV = dict(os.environ)
BASE_ENV.update({"CARGO_NET_OFFLINE": "true", "CARGO_TERM_COLOR": "never"})
for k in ("RUSTFLAGS", "MIRIFLAGS", "CARGO_TARGET_DIR", "CARGO_BUILD_TARGET"):
    BASE_ENV.pop(k, None)


def log(*a):
    print(*a, file=sys.stderr, flush=True)


# --------------------------------------------------------------------------- build

_built = {}


def variant_paths(v):
    spec = VARIANTS[v]
    tdir = os.path.join(TARGET, v)
    if spec.get("target"):
        exe = os.path.join(tdir, spec["target"], "release", "vh")
    else:
        exe = os.path.join(tdir, "release", "vh")
    return tdir, exe


def build(v):
    """Build variant v from /repo's current working tree (cargo decides what is stale)."""
    if v in _built:
        return _built[v]
    spec = VARIANTS[v]
    tdir, exe = variant_paths(v)
    env = dict(BASE_ENV)
    env["CARGO_TARGET_DIR"] = tdir
    env["RUSTFLAGS"] = spec.get("rustflags", "--cfg oxidd_verif")
    if spec.get("miri"):
        # build the Miri sysroot and the harness once (a `list` run), so that parallel shards only interpret
        env["MIRIFLAGS"] = spec["miriflags"]
        cmd = ["cargo", "+nightly", "miri", "run", "--offline", "--bin", "vh"]
        if spec.get("features") is not None:
            cmd += ["--no-default-features", "--features", spec["features"]]
        cmd += ["--", "list"]
        t0 = time.time()
        p = subprocess.run(cmd, cwd=HARNESS, env=env, stdout=subprocess.PIPE, stderr=subprocess.STDOUT, text=True)
        ok = p.returncode == 0
        log(f"[build] {v}: {'ok' if ok else 'FAILED'} in {time.time() - t0:.1f}s")
        if not ok:
            log(p.stdout[-4000:])
        _built[v] = (ok, p.stdout[-4000:])
        return _built[v]
    cmd = ["cargo"]
    if spec.get("nightly"):
        cmd.append("+nightly")
    cmd += ["build", "--release", "--offline", "--bin", "vh"]
    if spec.get("features") is not None:
        cmd += ["--no-default-features", "--features", spec["features"]]
    if spec.get("target"):
        cmd += ["--target", spec["target"]]
    cmd += spec.get("cargo_args", [])
    t0 = time.time()
    p = subprocess.run(cmd, cwd=HARNESS, env=env, stdout=subprocess.PIPE, stderr=subprocess.STDOUT, text=True)
    ok = p.returncode == 0 and os.path.exists(exe)
    log(f"[build] {v}: {'ok' if ok else 'FAILED'} in {time.time() - t0:.1f}s")
    if not ok:
        log(p.stdout[-4000:])
    _built[v] = (ok, p.stdout[-4000:])
    return _built[v]


# --------------------------------------------------------------------------- run shards


def run_shard(job, shard, nshards, tier, seed, extra_param=None):
    v = job["variant"]
    spec = VARIANTS[v]
    tdir, exe = variant_paths(v)
    args = [job["monitor"], "--tier", tier, "--seed", str(seed), "--shard", f"{shard}/{nshards}"]
    param = extra_param if extra_param is not None else job.get("param")
    if param is not None:
        args += ["--param", str(param)]
    env = dict(BASE_ENV)
    env.update(spec.get("run_env", {}))
    env["RUST_BACKTRACE"] = "0"
    if spec.get("miri"):
        env["CARGO_TARGET_DIR"] = tdir
        env["RUSTFLAGS"] = spec.get("rustflags", "--cfg oxidd_verif")
        env["MIRIFLAGS"] = spec["miriflags"] + " " + job.get("miriflags", "") + f" -Zmiri-seed={seed * 1000 + shard}"
        cmd = ["cargo", "+nightly", "miri", "run", "--offline", "--bin", "vh"]
        if spec.get("features") is not None:
            cmd += ["--no-default-features", "--features", spec["features"]]
        cmd += ["--"] + args
        cwd = HARNESS
    else:
        cmd = spec.get("wrapper", []) + [exe] + args
        cwd = ROOT
    timeout = job.get("timeout", {}).get(tier, 600 if tier == "quick" else 3600)
    t0 = time.time()
    try:
        p = subprocess.Popen(cmd, cwd=cwd, env=env, stdout=subprocess.PIPE, stderr=subprocess.PIPE, text=True,
                             errors="replace", start_new_session=True)
        try:
            out, err = p.communicate(timeout=timeout)
            timed_out = False
        except subprocess.TimeoutExpired:
            try:
                os.killpg(p.pid, signal.SIGKILL)
            except ProcessLookupError:
                pass
            out, err = p.communicate()
            timed_out = True
    except OSError as e:
        return {"job": job, "shard": shard, "nshards": nshards, "error": str(e), "rc": None, "out": "", "err": "", "wall": 0, "timed_out": False}
    return {"job": job, "shard": shard, "nshards": nshards, "rc": p.returncode, "out": out, "err": err,
            "wall": time.time() - t0, "timed_out": timed_out}


SAN_RE = re.compile(r"(ERROR: AddressSanitizer|WARNING: ThreadSanitizer|ERROR: LeakSanitizer|Undefined Behavior:|error: Undefined Behavior|error: unsupported operation|error: deadlock|Data race detected|ERROR SUMMARY: [1-9])")


def first_repo_frame(err):
    for line in err.splitlines():
        m = re.search(r"(/repo/crates/[^ :)]+:\d+)", line)
        if m:
            return m.group(1)
    m = re.search(r"(crates/[A-Za-z0-9_\-/\.]+\.rs:\d+)", err)
    return m.group(1) if m else "?"


def analyse(res):
    """-> (violations [(sig, witness)], summary or None, inconclusive_reason or None)"""
    job = res["job"]
    viols, summary, incon = [], None, None
    last_case = None
    digests = {}
    for line in res["out"].splitlines():
        if not line.startswith("@@"):
            continue
        try:
            o = json.loads(line[2:])
        except json.JSONDecodeError:
            continue
        if o.get("t") == "viol":
            viols.append((o["sig"], o["witness"]))
        elif o.get("t") == "summary":
            summary = o
        elif o.get("t") == "case":
            last_case = o.get("case")
        elif o.get("t") == "digest":
            digests[o["key"]] = o["val"]
    err = res["err"]
    if res.get("error"):
        return viols, summary, "cannot start: " + res["error"]
    # "Edges must not be dropped" is OxiDD's own leak detector
    if "must not be dropped" in err and not job.get("allow_edge_drop_msg"):
        viols.append((f"{job['monitor']}:edge-dropped-without-manager", tail(err, 6)))
    m = SAN_RE.search(err)
    if m and job.get("sanitizer", True):
        frame = first_repo_frame(err[m.start():])
        if frame == "?":
            # no frame of the report lies in OxiDD: a defect of the harness or the toolchain's
            # instrumentation, which says nothing about the property either way
            incon = "sanitizer report without any frame in /repo (harness/toolchain): " + tail(err[m.start():m.start() + 600], 3)
        else:
            viols.append((f"{job['monitor']}:{VARIANTS[job['variant']].get('kind', job['variant'])}-report:{m.group(1).strip(': ')}",
                          f"first repo frame {frame}\n" + tail(err[m.start():m.start() + 6000], 40)))
    if res["timed_out"]:
        incon = f"watchdog ({job['monitor']} shard {res['shard']}) after {res['wall']:.0f}s"
    elif "memory allocation of" in err and "failed" in err:
        incon = "host allocator refused: " + tail(err, 2)
    elif incon is not None:
        pass
    elif summary is None:
        rc = res["rc"]
        if m:
            pass  # already reported through the sanitizer line
        elif rc is not None and rc != 0:
            how = f"signal {-rc}" if rc < 0 else f"exit {rc}"
            if job.get("death_is_violation", True) and rc != 3:
                viols.append((f"{job['monitor']}:process-died", f"{how}; last case: {last_case}; stderr tail:\n" + tail(err, 12)))
            else:
                incon = f"shard ended with {how}: " + tail(err, 4)
        else:
            incon = "no summary line"
    res["digests"] = digests
    return viols, summary, incon


def tail(s, n):
    return "\n".join(s.strip().splitlines()[-n:])


# --------------------------------------------------------------------------- known findings


def load_known():
    p = os.path.join(ROOT, "known_findings.json")
    if not os.path.exists(p):
        return []
    with open(p) as f:
        return json.load(f).get("findings", [])


def match_known(known, prop, sig, witness):
    for k in known:
        if k.get("status") != "known" or k.get("property") != prop:
            continue
        if k.get("sig") != sig:
            continue
        wr = k.get("witness_regex")
        if wr and not re.search(wr, witness, re.S):
            continue
        return k
    return None


# --------------------------------------------------------------------------- check one property


def run_property(prop, tier, seed, only_job=None):
    t0 = time.time()
    plan = PLAN[prop]
    jobs = [j for j in plan["jobs"] if tier in j.get("tiers", ("quick", "thorough"))]
    if only_job is not None:
        jobs = [j for j in jobs if j["monitor"] == only_job]
    incon = []
    # build
    for v in sorted({j["variant"] for j in jobs}):
        ok, out = build(v)
        if not ok:
            incon.append(f"build of variant {v} failed")
    tasks = []
    for j in jobs:
        if not _built.get(j["variant"], (False,))[0]:
            continue
        n = j.get("shards", {}).get(tier, NCPU) if isinstance(j.get("shards"), dict) else j.get("shards", NCPU)
        only = j.get("only_shards")
        if isinstance(only, dict):
            only = only.get(tier)
        for s in range(n if only is None else min(n, only)):
            tasks.append((j, s, n))
    results = []
    # heavy (multi-threaded) jobs get fewer parallel slots
    width = {}
    for j in jobs:
        width[j["monitor"] + j["variant"]] = j.get("parallel", NCPU)
    by_width = {}
    for t in tasks:
        by_width.setdefault(width[t[0]["monitor"] + t[0]["variant"]], []).append(t)
    for w, ts in sorted(by_width.items(), reverse=True):
        with cf.ThreadPoolExecutor(max_workers=w) as ex:
            futs = [ex.submit(run_shard, j, s, n, tier, seed) for (j, s, n) in ts]
            for f in cf.as_completed(futs):
                results.append(f.result())
    known = load_known()
    evals = 0
    distinct = 0
    samples = []
    counters = {}
    per_monitor = {}
    viol_all = []
    for r in results:
        viols, summary, inc = analyse(r)
        j = r["job"]
        key = f"{j['monitor']}@{j['variant']}"
        pm = per_monitor.setdefault(key, {"shards": 0, "evaluations": 0, "distinct": 0, "wall_s": 0.0})
        pm["shards"] += 1
        pm["wall_s"] = round(max(pm["wall_s"], r["wall"]), 2)
        if inc:
            incon.append(f"{key} shard {r['shard']}: {inc}")
        if summary:
            evals += summary["evals"]
            distinct += summary["distinct_n"]
            pm["evaluations"] += summary["evals"]
            pm["distinct"] += summary["distinct_n"]
            for s in summary["samples"]:
                if len(samples) < 12:
                    samples.append(f"[{key}] {s}")
            for k, v in summary["counters"].items():
                if k.startswith("max_"):
                    counters[k] = max(counters.get(k, 0), v)
                else:
                    counters[k] = counters.get(k, 0) + v
            if summary["evals"] == 0 and not j.get("may_be_empty"):
                incon.append(f"{key} shard {r['shard']}: monitor observed nothing")
        for sig, wit in viols:
            viol_all.append((r, sig, wit))
    # cross-variant digests (C20): every variant must report the same digest for the same corpus item
    if plan.get("cross_variant_digest"):
        table = {}
        for r in results:
            v = r["job"]["variant"]
            for k, val in r.get("digests", {}).items():
                table.setdefault((r["job"]["monitor"], k), {})[v] = val
        variants = sorted({r["job"]["variant"] for r in results})
        compared = 0
        for (mon, k), vals in sorted(table.items()):
            if len(vals) != len(variants):
                incon.append(f"digest {k} missing in variants {sorted(set(variants) - set(vals))}")
                continue
            compared += 1
            if len(set(vals.values())) != 1:
                ref = vals[variants[0]]
                bad = [v for v in variants if vals[v] != ref]
                # attach to the first result of the deviating variant
                r0 = next(r for r in results if r["job"]["variant"] == bad[0] and k in r.get("digests", {}))
                viol_all.append((r0, f"{mon}:digest-differs-between-configurations:{k.split(':')[0]}:{k.split(':')[1]}",
                                 f"corpus item {k}: " + ", ".join(f"{v}={vals[v]}" for v in variants)))
        counters["digests_compared_across_variants"] = compared
        counters["variants_compared"] = len(variants)
        if compared == 0:
            incon.append("no digests compared")

    # required counters (events the monitor exists for)
    for name in plan.get("require_counters", {}).get(tier, plan.get("require_counters", {}).get("all", [])):
        if counters.get(name, 0) == 0:
            incon.append(f"required event '{name}' was never observed")

    # report
    new_viol = 0
    printed_known = set()
    printed_new = set()
    os.makedirs(REPLAYS, exist_ok=True)
    for r, sig, wit in viol_all:
        k = match_known(known, prop, sig, wit)
        if k:
            if k["id"] not in printed_known:
                printed_known.add(k["id"])
                print(f"KNOWN-FINDING: property={prop} {k['id']}: {k['description']}")
            continue
        new_viol += 1
        if sig in printed_new:
            continue
        printed_new.add(sig)
        j = r["job"]
        rep = {"property": prop, "monitor": j["monitor"], "variant": j["variant"], "tier": tier, "seed": seed,
               "shard": r["shard"], "nshards": r["nshards"], "param": j.get("param"), "sig": sig, "witness": wit}
        h = hashlib.sha1((prop + sig).encode()).hexdigest()[:10]
        path = os.path.join(REPLAYS, f"{prop}-{h}.json")
        with open(path, "w") as f:
            json.dump(rep, f, indent=1)
        print(f"VIOLATION property={prop} replay={path}")
        print(f"  sig: {sig}")
        for line in wit.splitlines()[:12]:
            print(f"  | {line}")
    wall = time.time() - t0
    level = plan.get("level", "exploration")
    if not samples:
        samples = ["<no samples: monitors produced none>"]
    ev = {
        "property_id": prop,
        "tier": tier,
        "seed": seed,
        "level": level,
        "coverage": {
            "evaluations": evals,
            "distinct_nontrivial": distinct,
            "rule": plan["rule"],
            "samples": samples,
            "exhaustive": bool(plan.get("exhaustive", False)),
            "per_monitor": per_monitor,
            "observed_events": counters,
            "known_findings_seen": sorted(printed_known),
            "inconclusive": incon,
        },
        "assumptions": plan.get("assumptions", []),
        "wall_s": round(wall, 2),
        "violations": new_viol,
    }
    os.makedirs(EVID, exist_ok=True)
    tmp = os.path.join(EVID, f".{prop}.json.tmp")
    with open(tmp, "w") as f:
        json.dump(ev, f, indent=1)
    os.replace(tmp, os.path.join(EVID, f"{prop}.json"))
    status = 1 if new_viol else (2 if incon else 0)
    for i in incon[:10]:
        print(f"INCONCLUSIVE property={prop} reason={i}")
    print(f"[{prop}] tier={tier} seed={seed} evaluations={evals} distinct={distinct} violations={new_viol} "
          f"known={len(printed_known)} inconclusive={len(incon)} wall={wall:.1f}s -> exit {status}")
    return status


def sweep_scratch():
    """Scratch directories of shards that died before they could remove them."""
    import glob, shutil
    for d in glob.glob("/tmp/ag19-*"):
        pid = d.rsplit("-", 1)[-1]
        if pid.isdigit() and not os.path.exists(f"/proc/{pid}"):
            shutil.rmtree(d, ignore_errors=True)


def replay(path):
    with open(path) as f:
        rep = json.load(f)
    prop = rep["property"]
    job = None
    for j in PLAN[prop]["jobs"]:
        if j["monitor"] == rep["monitor"] and j["variant"] == rep["variant"]:
            job = j
    if job is None:
        print("replay: job no longer exists")
        return 2
    ok, _ = build(job["variant"])
    if not ok:
        print(f"INCONCLUSIVE property={prop} reason=build failed")
        return 2
    reps = 5 if job.get("nondeterministic") else 1
    for _ in range(reps):
        r = run_shard(job, rep["shard"], rep["nshards"], rep["tier"], rep["seed"], rep.get("param"))
        viols, summary, inc = analyse(r)
        for sig, wit in viols:
            if sig == rep["sig"]:
                print(f"VIOLATION property={prop} replay={path}")
                print(f"  sig: {sig}")
                for line in wit.splitlines()[:12]:
                    print(f"  | {line}")
                return 1
    print(f"[replay] {rep['sig']} did not reproduce")
    return 0


def main():
    a = sys.argv[1:]
    if not a:
        print(__doc__)
        return 2
    tier = os.environ.get("VERIF_TIER", "quick")
    seed = int(os.environ.get("VERIF_SEED", "1"))
    only = None
    pos = []
    i = 0
    while i < len(a):
        if a[i] == "--tier":
            tier = a[i + 1]
            i += 2
        elif a[i] == "--seed":
            seed = int(a[i + 1])
            i += 2
        elif a[i] == "--only":
            only = a[i + 1]
            i += 2
        else:
            pos.append(a[i])
            i += 1
    cmd = pos[0]
    if cmd == "setup":
        need = set()
        for p in PLAN.values():
            for j in p["jobs"]:
                if "quick" in j.get("tiers", ("quick", "thorough")):
                    need.add(j["variant"])
        bad = 0
        for v in sorted(need):
            ok, _ = build(v)
            bad += 0 if ok else 1
        return 1 if bad else 0
    if cmd == "replay":
        return replay(pos[1])
    if cmd == "all":
        worst = 0
        for p in sorted(PLAN):
            worst = max(worst, run_property(p, tier, seed))
        sweep_scratch()
        return worst
    if cmd in PLAN:
        rc = run_property(cmd, tier, seed, only)
        sweep_scratch()
        return rc
    print(f"unknown command {cmd}")
    return 2


if __name__ == "__main__":
    sys.exit(main())
