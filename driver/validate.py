#!/usr/bin/env python3
import json, glob, sys
import jsonschema
jsonschema.validate(json.load(open('/verif/MANIFEST.json')), json.load(open('/root/.vp/MANIFEST.schema.json')))
s = json.load(open('/root/.vp/EVIDENCE.schema.json'))
for f in sorted(glob.glob('/verif/evidence/C*.json')):
    jsonschema.validate(json.load(open(f)), s)
print('manifest + evidence valid')
