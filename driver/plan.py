"""Declarative plan: build variants and, per property, which monitors run in which variant."""

CFG = "--cfg oxidd_verif"

VARIANTS = {
    # default: release, hooks on, overflow checks on (harness profile), no debug assertions
    "rel": {"rustflags": CFG},
    # same + debug assertions: OxiDD's own debug_assert!s become extra oracles
    "dbg": {"rustflags": CFG + " -C debug-assertions=on"},
}

Q = ("quick",)
T = ("thorough",)
QT = ("quick", "thorough")

PLAN = {
    "C01": {
        "level": "exploration",
        "rule": "random histories (apply/ite/quantify/substitute/restrict/cofactor/clone/drop/drop-on-thread/gc/add_vars/"
                "set_var_order[_seq]/from-table) over 3..7 variables on bdd, bcdd, zbdd; after every step the new handle is "
                "compared (==, hash, cmp) with every live handle against its model table; full audits every 25 steps. "
                "distinct = distinct (kind, operation, non-constant result table, #vars) observed.",
        "assumptions": ["truth-table model is the specification", "ZBDD histories do not reorder (known finding C08-zbdd-level-swap-skipped-level)"],
        "jobs": [
            {"monitor": "c01_hist", "variant": "rel", "shards": 16},
            {"monitor": "c01_hist", "variant": "dbg", "shards": 16},
        ],
        "require_counters": {"all": ["gcs_that_freed", "audits"]},
    },
    "C08": {
        "level": "exploration",
        "exhaustive": True,
        "rule": "n=3: all 6 source orders x all 12 requests (total and partial, len>=2) x {set_var_order, _seq} with all 256 "
                "functions alive; n=4: all 24 sources x total requests (+partial sampled in quick, all in thorough) with "
                "sampled live functions and dead nodes; n=5..8 random. Oracle: requested relative order, brute-force minimal "
                "adjacent swaps, tables unchanged, structure + ref-count audit, node_count minimal, rebuilt function == "
                "surviving handle, then ops + gc + second reordering + teardown. distinct = distinct (kind, source, request, "
                "variant) cases needing >= 1 swap.",
        "assumptions": ["minimality brute-forced for n <= 7 only", "ZBDD cases are cut short at the first handle whose family changed (known finding)"],
        "jobs": [
            {"monitor": "c08_exh", "variant": "rel", "shards": 32},
            {"monitor": "c08_rand", "variant": "rel", "shards": 16},
            {"monitor": "c08_rand", "variant": "dbg", "shards": 16, "param": "01"},  # ZBDD excluded: known finding aborts under debug assertions
        ],
        "require_counters": {"all": ["reorder_cases", "gcs_that_freed"]},
    },
    "C02": {
        "level": "exploration",
        "exhaustive": True,
        "rule": "n=3: every ordered pair of the 256 functions x 8 binary operators, not/not_owned/cofactors/"
                "satisfiable/valid for every function, ite triples (quick: 1/16 sample; thorough: all 2^24), for "
                "{bdd,bcdd,zbdd} x 6 variable orders x threads {1,4}; n=4..8 random operands. distinct = distinct "
                "(kind, operator, operand tables, order, threads) tuples whose result is not constant.",
        "assumptions": ["truth-table model in harness/src/tt.rs is the specification",
                        "exhaustive only for 3 variables; larger n sampled from VERIF_SEED"],
        "jobs": [
            {"monitor": "c02_pairs", "variant": "rel", "shards": 36},
        ],
    },
}

HOOK_COMMITS = []

MANIFEST_TEXT = {
    "C01": {
        "text": "Held on every generated history: after each of several thousand steps per run the result handle is compared "
                "pairwise (==, Hash, Ord) with all live handles against independent truth tables, across gc, add_vars, "
                "reordering, drops on other threads; also with OxiDD's debug assertions enabled.",
        "design_ref": "DESIGN.md section 5 / C01",
        "note": "Trusted: truth-table model, interpreter. Histories are sampled; equality only checked among handles the harness holds.",
        "technique": "runtime monitoring: history generator + reference-model oracle + pairwise canonicity check after every step",
    },
    "C08": {
        "text": "Held on all enumerated (n=3 complete, n=4 all total requests) and sampled reorderings: order, brute-force "
                "swap minimality, every live function unchanged, structural and reference-count audits, canonicity of "
                "rebuilt functions, follow-up operations/gc/second reordering. One recorded known finding (ZBDD).",
        "design_ref": "DESIGN.md section 5 / C08",
        "note": "Trusted: truth tables, audits. MTBDD/TDD reordering covered by their own monitors; concurrent bubble sort by the large-diagram job.",
        "technique": "runtime monitoring: exhaustive small-scope enumeration of reorderings with model, audit and minimal-swap oracles",
    },
    "C02": {
        "text": "Held on every executed case: exhaustive for 3 variables (all operand pairs, all/sampled ite triples, all "
                "orders, 3 kinds, 1 and 4 threads with maximal split depth) against a pointwise truth-table model, eval "
                "cross-checked against an independent node-by-node interpreter; random operands for 4..8 variables.",
        "design_ref": "DESIGN.md section 5 / C02",
        "note": "Trusted: harness truth-table model and interpreter. Not covered: n>3 exhaustively, operand tuples never generated.",
        "technique": "runtime monitoring: reference-model oracle (truth tables) over exhaustive n=3 + seeded random executions",
    },
}
