"""Declarative plan: build variants and, per property, which monitors run in which variant."""

CFG = "--cfg oxidd_verif"

VARIANTS = {
    # default: release, hooks on, overflow checks on (harness profile), no debug assertions
    "rel": {"rustflags": CFG},
    # same + debug assertions: OxiDD's own debug_assert!s become extra oracles
    "dbg": {"rustflags": CFG + " -C debug-assertions=on"},
}

Q = ("quick",)
T = ("thorough",)
QT = ("quick", "thorough")

PLAN = {
    "C01": {
        "level": "exploration",
        "rule": "random histories (apply/ite/quantify/substitute/restrict/cofactor/clone/drop/drop-on-thread/gc/add_vars/"
                "set_var_order[_seq]/from-table) over 3..7 variables on bdd, bcdd, zbdd; after every step the new handle is "
                "compared (==, hash, cmp) with every live handle against its model table; full audits every 25 steps. "
                "distinct = distinct (kind, operation, non-constant result table, #vars) observed.",
        "assumptions": ["truth-table model is the specification", "ZBDD histories do not reorder (known finding C08-zbdd-level-swap-skipped-level)"],
        "jobs": [
            {"monitor": "c01_hist", "variant": "rel", "shards": 16},
            {"monitor": "c01_hist", "variant": "dbg", "shards": 16},
        ],
        "require_counters": {"all": ["gcs_that_freed", "audits"]},
    },
    "C04": {
        "level": "exploration",
        "exhaustive": True,
        "rule": "n=3, {bdd,bcdd} x 6 orders x threads {1,4} (zbdd: restrict only): exists/forall/unique x all 256 f x all 8 "
                "variable sets; restrict x all f x all 27 literal cubes; apply_exists/forall/unique x operand pairs (quick 1/32 "
                "sample, thorough all 65536) x 8 operators x 7 sets, compared with the model and with the two-step OxiDD result; "
                "substitute x 17^3 replacement vectors (16-function palette or unsubstituted per variable; quick 1/8 sample) x all "
                "f with ONE Subst object reused for all 256 f; alternating substitutions on the same variable with gc between; "
                "random instances n=4..8. distinct = distinct (kind, op, operands, set/cube/vector, order) with non-constant result.",
        "assumptions": ["truth-table model is the specification"],
        "jobs": [
            {"monitor": "c04_exh", "variant": "rel", "shards": 30},
            {"monitor": "c04_rand", "variant": "rel", "shards": 16},
            {"monitor": "c04_rand", "variant": "dbg", "shards": 8},
        ],
        "require_counters": {"all": ["gc_between_substitutions"]},
    },
    "C09": {
        "level": "exploration",
        "exhaustive": True,
        "rule": "zbdd, n=3, 6 orders x threads {1,4}: empty/base/singleton; subset0/subset1/change x 256 families x 3 variables; "
                "union/intsec/diff x all 65536 pairs; make_node for every variable and every (hi,lo) whose variables lie below it; "
                "random families over 2..8 variables with add_vars between operations, family view vs interp vs eval. distinct = "
                "distinct (operation, operands, order) with non-empty result.",
        "assumptions": ["set definitions from the BooleanVecSet rustdoc, written pointwise on bit vectors"],
        "jobs": [
            {"monitor": "c09_exh", "variant": "rel", "shards": 12},
            {"monitor": "c09_rand", "variant": "rel", "shards": 16},
            {"monitor": "c09_rand", "variant": "dbg", "shards": 8},
        ],
        "require_counters": {"all": ["add_vars", "make_node_calls"]},
    },
    "C13": {
        "level": "exploration",
        "exhaustive": True,
        "rule": "{bdd,bcdd,zbdd} x 6 orders, n=3: all 256 functions x all 8 choice vectors (pick_cube and pick_cube_dd, choice "
                "protocol: once per level, node of that level) x all 27 literal sets (pick_cube_dd_set), judged by a reference walk "
                "over truth tables (forced / free / irrelevant per level); random n=4..8; pick_cube_uniform: no non-model, chi-square "
                "vs uniform over models on fixed seeds (threshold at z=6.2). distinct = distinct (kind, function, choice vector or "
                "literal set, order) where a real choice existed.",
        "assumptions": ["uniformity is a statistical statement (fixed seeds, p<1e-9 threshold)"],
        "jobs": [
            {"monitor": "c13_exh", "variant": "rel", "shards": 18},
            {"monitor": "c13_rand", "variant": "rel", "shards": 16},
            {"monitor": "c13_rand", "variant": "dbg", "shards": 8},
            {"monitor": "c13_uniform", "variant": "rel", "shards": 7},
        ],
        "require_counters": {"all": ["uniform_draws"]},
    },
    "C08": {
        "level": "exploration",
        "exhaustive": True,
        "rule": "n=3: all 6 source orders x all 12 requests (total and partial, len>=2) x {set_var_order, _seq} with all 256 "
                "functions alive; n=4: all 24 sources x total requests (+partial sampled in quick, all in thorough) with "
                "sampled live functions and dead nodes; n=5..8 random. Oracle: requested relative order, brute-force minimal "
                "adjacent swaps, tables unchanged, structure + ref-count audit, node_count minimal, rebuilt function == "
                "surviving handle, then ops + gc + second reordering + teardown. distinct = distinct (kind, source, request, "
                "variant) cases needing >= 1 swap.",
        "assumptions": ["minimality brute-forced for n <= 7 only", "ZBDD cases are cut short at the first handle whose family changed (known finding)"],
        "jobs": [
            {"monitor": "c08_exh", "variant": "rel", "shards": 32},
            {"monitor": "c08_rand", "variant": "rel", "shards": 16},
            {"monitor": "c08_rand", "variant": "dbg", "shards": 16, "param": "01"},  # ZBDD excluded: known finding aborts under debug assertions
        ],
        "require_counters": {"all": ["reorder_cases", "gcs_that_freed"]},
    },
    "C02": {
        "level": "exploration",
        "exhaustive": True,
        "rule": "n=3: every ordered pair of the 256 functions x 8 binary operators, not/not_owned/cofactors/"
                "satisfiable/valid for every function, ite triples (quick: 1/16 sample; thorough: all 2^24), for "
                "{bdd,bcdd,zbdd} x 6 variable orders x threads {1,4}; n=4..8 random operands. distinct = distinct "
                "(kind, operator, operand tables, order, threads) tuples whose result is not constant.",
        "assumptions": ["truth-table model in harness/src/tt.rs is the specification",
                        "exhaustive only for 3 variables; larger n sampled from VERIF_SEED"],
        "jobs": [
            {"monitor": "c02_pairs", "variant": "rel", "shards": 36},
        ],
    },
}

HOOK_COMMITS = []

MANIFEST_TEXT = {
    "C04": {
        "text": "Held on every executed case: exhaustive over 3 variables for the plain quantifiers, restrict and (thorough) "
                "the combined apply-quantify forms; 17^3 substitution vectors with a reused Subst object; interleaved "
                "substitutions across gc; seeded random instances up to 8 variables, 1 and 4 threads, tiny and large caches.",
        "design_ref": "DESIGN.md section 5 / C04",
        "note": "Trusted: truth-table model. ZBDD has no quantifier/substitution API (restrict only).",
        "technique": "runtime monitoring: reference-model oracle over exhaustive n=3 + seeded random executions",
    },
    "C09": {
        "text": "Held on every executed case: all families over 3 variables for every set operation and make_node under all "
                "orders; random families with variables added between operations, family/Boolean views cross-checked.",
        "design_ref": "DESIGN.md section 5 / C09",
        "note": "Trusted: set-level definitions written in the monitor.",
        "technique": "runtime monitoring: set-family reference model over exhaustive n=3 + seeded random histories",
    },
    "C13": {
        "text": "Held on every executed case: exhaustive over 3 variables (functions x choice vectors x literal sets x orders x "
                "kinds) against a reference walk that classifies each level as forced / free / irrelevant; statistical test of "
                "pick_cube_uniform on fixed seeds.",
        "design_ref": "DESIGN.md section 5 / C13",
        "note": "Trusted: truth tables, reference walk. 'Arbitrary choice' cases accept any value. ZBDD judged by the weaker documented contract.",
        "technique": "runtime monitoring: reference-walk oracle over exhaustive n=3, random n<=8, chi-square test for uniform sampling",
    },
    "C01": {
        "text": "Held on every generated history: after each of several thousand steps per run the result handle is compared "
                "pairwise (==, Hash, Ord) with all live handles against independent truth tables, across gc, add_vars, "
                "reordering, drops on other threads; also with OxiDD's debug assertions enabled.",
        "design_ref": "DESIGN.md section 5 / C01",
        "note": "Trusted: truth-table model, interpreter. Histories are sampled; equality only checked among handles the harness holds.",
        "technique": "runtime monitoring: history generator + reference-model oracle + pairwise canonicity check after every step",
    },
    "C08": {
        "text": "Held on all enumerated (n=3 complete, n=4 all total requests) and sampled reorderings: order, brute-force "
                "swap minimality, every live function unchanged, structural and reference-count audits, canonicity of "
                "rebuilt functions, follow-up operations/gc/second reordering. One recorded known finding (ZBDD).",
        "design_ref": "DESIGN.md section 5 / C08",
        "note": "Trusted: truth tables, audits. MTBDD/TDD reordering covered by their own monitors; concurrent bubble sort by the large-diagram job.",
        "technique": "runtime monitoring: exhaustive small-scope enumeration of reorderings with model, audit and minimal-swap oracles",
    },
    "C02": {
        "text": "Held on every executed case: exhaustive for 3 variables (all operand pairs, all/sampled ite triples, all "
                "orders, 3 kinds, 1 and 4 threads with maximal split depth) against a pointwise truth-table model, eval "
                "cross-checked against an independent node-by-node interpreter; random operands for 4..8 variables.",
        "design_ref": "DESIGN.md section 5 / C02",
        "note": "Trusted: harness truth-table model and interpreter. Not covered: n>3 exhaustively, operand tuples never generated.",
        "technique": "runtime monitoring: reference-model oracle (truth tables) over exhaustive n=3 + seeded random executions",
    },
}
