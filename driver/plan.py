"""Declarative plan: build variants and, per property, which monitors run in which variant."""

CFG = "--cfg oxidd_verif"

VARIANTS = {
    # default: release, hooks on, overflow checks on (harness profile), no debug assertions
    "rel": {"rustflags": CFG},
    # same + debug assertions: OxiDD's own debug_assert!s become extra oracles
    "dbg": {"rustflags": CFG + " -C debug-assertions=on"},
}

Q = ("quick",)
T = ("thorough",)
QT = ("quick", "thorough")

PLAN = {
    "C02": {
        "level": "exploration",
        "exhaustive": True,
        "rule": "n=3: every ordered pair of the 256 functions x 8 binary operators, not/not_owned/cofactors/"
                "satisfiable/valid for every function, ite triples (quick: 1/16 sample; thorough: all 2^24), for "
                "{bdd,bcdd,zbdd} x 6 variable orders x threads {1,4}; n=4..8 random operands. distinct = distinct "
                "(kind, operator, operand tables, order, threads) tuples whose result is not constant.",
        "assumptions": ["truth-table model in harness/src/tt.rs is the specification",
                        "exhaustive only for 3 variables; larger n sampled from VERIF_SEED"],
        "jobs": [
            {"monitor": "c02_pairs", "variant": "rel", "shards": 36},
        ],
    },
}

HOOK_COMMITS = []

MANIFEST_TEXT = {
    "C02": {
        "text": "Held on every executed case: exhaustive for 3 variables (all operand pairs, all/sampled ite triples, all "
                "orders, 3 kinds, 1 and 4 threads with maximal split depth) against a pointwise truth-table model, eval "
                "cross-checked against an independent node-by-node interpreter; random operands for 4..8 variables.",
        "design_ref": "DESIGN.md section 5 / C02",
        "note": "Trusted: harness truth-table model and interpreter. Not covered: n>3 exhaustively, operand tuples never generated.",
        "technique": "runtime monitoring: reference-model oracle (truth tables) over exhaustive n=3 + seeded random executions",
    },
}
