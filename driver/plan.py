"""Declarative plan: build variants and, per property, which monitors run in which variant."""

CFG = "--cfg oxidd_verif"

VARIANTS = {
    # default: release, hooks on, overflow checks on (harness profile), no debug assertions
    "rel": {"rustflags": CFG},
    # same + debug assertions: OxiDD's own debug_assert!s become extra oracles
    "dbg": {"rustflags": CFG + " -C debug-assertions=on"},
    # feature matrix for C20 (and for re-running shared monitors on the other backend)
    "pointer": {"rustflags": CFG, "features": "pointer,cache,mt"},
    "pointer-nocache": {"rustflags": CFG, "features": "pointer,mt"},
    "pointer-st": {"rustflags": CFG, "features": "pointer,cache"},
    "pointer-nocache-st": {"rustflags": CFG, "features": "pointer"},
    "nocache": {"rustflags": CFG, "features": "index,mt"},
    "st": {"rustflags": CFG, "features": "index,cache"},
    "nocache-st": {"rustflags": CFG, "features": "index"},
    # Miri: UB, data races (incl. weak-memory emulation), deadlocks on tiny workloads; one Miri seed per shard
    "miri": {"miri": True, "rustflags": CFG, "kind": "miri",
             "miriflags": "-Zmiri-tree-borrows -Zmiri-permissive-provenance -Zmiri-disable-isolation -Zmiri-ignore-leaks"},
    # ThreadSanitizer (needs an instrumented std)
    "tsan": {"nightly": True, "rustflags": CFG + " -Zsanitizer=thread", "cargo_args": ["-Zbuild-std"],
             "target": "x86_64-unknown-linux-gnu", "kind": "tsan",
             "run_env": {"TSAN_OPTIONS": "halt_on_error=0 second_deadlock_stack=1"}},
    # AddressSanitizer
    "asan": {"nightly": True, "rustflags": CFG + " -Zsanitizer=address -Cforce-frame-pointers=yes",
             "target": "x86_64-unknown-linux-gnu", "kind": "asan",
             "run_env": {"ASAN_OPTIONS": "detect_leaks=0:halt_on_error=1:abort_on_error=0"}},
}

Q = ("quick",)
T = ("thorough",)
QT = ("quick", "thorough")

PLAN = {
    "C01": {
        "level": "exploration",
        "rule": "random histories (apply/ite/quantify/substitute/restrict/cofactor/clone/drop/drop-on-thread/gc/add_vars/"
                "set_var_order[_seq]/from-table) over 3..7 variables on bdd, bcdd, zbdd; after every step the new handle is "
                "compared (==, hash, cmp) with every live handle against its model table; full audits every 25 steps. "
                "MTBDD (I64, F64 incl. NaN/-0 normalisation) and TDD: the value-table canonicity clauses of the C10/C11 history monitors. "
                "distinct = distinct (kind, operation, non-constant result table, #vars) observed.",
        "assumptions": ["truth-table model is the specification", "histories are sampled"],
        "jobs": [
            {"monitor": "c01_hist", "variant": "rel", "shards": 16},
            {"monitor": "c01_hist", "variant": "dbg", "shards": 16},
            # MTBDD and TDD: the canonicity clauses (equal value tables <=> identical handles) of their own monitors
            {"monitor": "c10_dd", "variant": "rel", "shards": 16},
            {"monitor": "c11_rand", "variant": "rel", "shards": 16},
            # canonicity across the concurrent reordering paths (>= 65536 nodes, 2..8 workers): rebuilt function == surviving handle
            {"monitor": "c08_large", "variant": "rel", "shards": 4, "parallel": 4},
            # MTBDD constants across enumerations of Manager::terminals() (also DOT / DDDMP export), gc and new constants
            {"monitor": "c05_mtbdd_terminals", "variant": "rel", "shards": 8},
        ],
        "require_counters": {"all": ["gcs_that_freed", "audits"]},
    },
    "C03": {
        "level": "exploration",
        "rule": "histories on bdd/bcdd/zbdd in three flavours (reorder-heavy, add_vars/add_named_vars-heavy up to 10 variables, "
                "capacity-starved with 24..99 node slots so operations fail with OutOfMemory) with the FULL structural audit after "
                "EVERY step: level of each node, children strictly below, per-kind reduction rule, no duplicate children per level, "
                "len()/num_inner_nodes() agreement, var<->level maps inverse permutations, then-edge uncomplemented (bcdd), "
                "node_count == size of the reduced diagram computed from the truth table. The same audit runs after every DDDMP import "
                "that the importer accepts from hand-damaged and byte-mutated ASCII/binary files (c15_malformed). Audits also run inside C01/C05/C06/C08/C14. "
                "distinct = distinct (kind, operation, non-constant result table, #vars).",
        "assumptions": ["audit only at quiescent points, under the manager's exclusive lock"],
        "jobs": [
            {"monitor": "c03_hist", "variant": "rel", "shards": 16},
            {"monitor": "c03_hist", "variant": "dbg", "shards": 16},
            {"monitor": "c03_hist", "variant": "pointer", "shards": 8},
            # add_vars / add_named_vars / add_named_vars_from_map / rejected calls: num_vars == num_levels, maps inverse, handles intact
            {"monitor": "c16_mgr", "variant": "rel", "shards": 16},
            {"monitor": "c16_mgr", "variant": "pointer", "shards": 8},
            # concurrent bubble sort of set_var_order (>= 65536 nodes, 4 workers): full audit after each reordering
            {"monitor": "c08_large", "variant": "rel", "shards": {"quick": 4, "thorough": 16}, "parallel": 4},
            # DDDMP import of well-formed, hand-damaged and byte-mutated files (ASCII and binary): whatever the importer
            # accepts is stored in the manager, so the full structural audit runs after every accepted import (C03-r5m1)
            {"monitor": "c15_malformed", "variant": "rel", "shards": 16},
        ],
        "require_counters": {"all": ["audits", "failed_operations_oom", "gcs_that_freed"]},
    },
    "C05": {
        "level": "exploration",
        "rule": "(a) clone/drop/drop-on-other-thread/gc-heavy histories incl. not_owned, not_edge_owned, into_edge/from_edge, "
                "pick_cube_dd, reordering: after every 5 steps and every gc: ref_count(n) == live handles + stored parent edges "
                "(+ ZBDD tautology chain) for EVERY stored node; after gc stored == reachable and gc()'s return value == before-after; "
                "all tables unchanged; after dropping everything + gc the initial node count. (b) managers of 128..400 slots so "
                "that OxiDD's background collector fires by itself (counted) while operations fail and succeed. (c) capacity probe: "
                "history in a 30..99-slot manager, drop all, gc, fill until OutOfMemory: stored == capacity (slot conservation). "
                "distinct = distinct (kind, operation, result table) + distinct probes.",
        "assumptions": ["reference counts of dynamic terminals are not exposed by the API (checked via num_terminals in the C10 monitor)"],
        "jobs": [
            {"monitor": "c05_hist", "variant": "rel", "shards": 16},
            {"monitor": "c05_hist", "variant": "dbg", "shards": 16},
            {"monitor": "c05_bg", "variant": "rel", "shards": 16},
            {"monitor": "c05_probe", "variant": "rel", "shards": 16},
            {"monitor": "c05_probe_large", "variant": "rel", "shards": 4},
            # histories (with gc and audits after every step) on one manager from inside a scope of another
            # manager: the node store's paths for threads bound to a different store
            {"monitor": "c14_nested", "variant": "rel", "shards": 8},
            {"monitor": "c14_nested", "variant": "dbg", "shards": 8},
            {"monitor": "c05_probe", "variant": "dbg", "shards": 8},
            {"monitor": "c05_mtbdd_terminals", "variant": "rel", "shards": 8},
            {"monitor": "c05_mtbdd_terminals", "variant": "dbg", "shards": 4},
            {"monitor": "c10_dd", "variant": "rel", "shards": 16, "tiers": ("thorough",)},  # MTBDD: exact gc of nodes and terminals
        ],
        "require_counters": {"all": ["background_gcs_observed", "probes", "gcs_that_freed", "failed_operations_oom", "terminal_iterations"]},
    },
    "C06": {
        "level": "exploration",
        "rule": "cache-hostile histories (same operands under different operators back-to-back, swapped operands, ite permutations, "
                "same set under different quantifiers/inner operators, different substitutions of one function, repetition across "
                "drop+gc+slot reuse / set_var_order / add_vars) replayed on 7 managers: cache capacity {65536 fresh (reference), 1, 2, "
                "16 fresh; 16, 65536, 1 warmed up with 150 unrelated operations}; every result checked against the truth-table model "
                "and the per-handle digests (table, node_count, first equal earlier handle) compared across replays. distinct = "
                "distinct (kind, history, capacity, warm) replays that agreed.",
        "assumptions": ["MTBDD/TDD operator-key mix-ups are covered by the C10/C11 monitors (different operators on the same operands with tiny caches)"],
        "jobs": [
            {"monitor": "c06_diff", "variant": "rel", "shards": 16},
            {"monitor": "c06_diff", "variant": "dbg", "shards": 8},
            {"monitor": "c06_diff", "variant": "pointer", "shards": 8},
            {"monitor": "c06_subst_ids", "variant": "rel", "shards": 4, "parallel": 4, "nondeterministic": True},
            # operator / operand-order key mix-ups for the other kinds: different operators (and swapped operands) on the
            # same operands back-to-back on one manager with caches of 1..4096 entries
            {"monitor": "c10_dd", "variant": "rel", "shards": 16},
            {"monitor": "c11_exh", "variant": "rel", "shards": 16},
        ],
        "require_counters": {"all": ["replays", "gcs_that_freed", "substitutions_created"]},
    },
    "C14": {
        "level": "fault_enumeration",
        "exhaustive": True,
        "rule": "for each generated script (5 operand constructions, then apply, ite, not, quantify, apply-quantify, substitute, "
                "restrict, pick_cube_dd, cofactor, apply) the node capacity c is swept over EVERY value 0..demand+2 (demand = slots "
                "used by the script in a large manager; < 100 so the background collector is off), 1 thread and 4 threads with "
                "maximal split depth: no panic/abort, a result is either OutOfMemory or model-correct, after EVERY operation the "
                "full structural + reference-count audit and all live tables; c >= demand => no failure (1 thread); failed operation "
                "retried after drop+gc when c >= its measured demand (1 thread). distinct = distinct (kind, script, capacity, "
                "threads) runs in which at least one OutOfMemory was returned. Separate job: the two operations without error "
                "channel (ZBDD add_vars, set_var_order) are shown to abort (known findings).",
        "assumptions": ["host allocator exhaustion is out of scope", "MTBDD terminal capacity and DDDMP import under exhaustion: see C10/C15 monitors",
                        "with >1 worker free slots are partitioned per thread, so exact capacity bounds are asserted for 1 thread only"],
        "jobs": [
            {"monitor": "c14_sweep", "variant": "rel", "shards": 16},
            {"monitor": "c14_sweep", "variant": "dbg", "shards": 16},
            {"monitor": "c14_nested", "variant": "rel", "shards": 8},
            {"monitor": "c14_nested", "variant": "dbg", "shards": 8},
            {"monitor": "c14_aborts", "variant": "rel", "shards": 2},
            {"monitor": "c14_import", "variant": "rel", "shards": 16},
            {"monitor": "c14_import", "variant": "dbg", "shards": 8},
            # MTBDD: terminal and inner capacities of 3..6 entries (OutOfMemory returned, store usable again after gc)
            {"monitor": "c10_dd", "variant": "rel", "shards": 16},
        ],
        "require_counters": {"all": ["capacities_with_oom", "retries_succeeded", "import_capacities_with_oom"]},
    },
    "C04": {
        "level": "exploration",
        "exhaustive": True,
        "rule": "n=3, {bdd,bcdd} x 6 orders x threads {1,4} (zbdd: restrict only): exists/forall/unique x all 256 f x all 8 "
                "variable sets; restrict x all f x all 27 literal cubes; apply_exists/forall/unique x operand pairs (quick 1/32 "
                "sample, thorough all 65536) x 8 operators x 7 sets, compared with the model and with the two-step OxiDD result; "
                "substitute x 17^3 replacement vectors (16-function palette or unsubstituted per variable; quick 1/8 sample) x all "
                "f with ONE Subst object reused for all 256 f; alternating substitutions on the same variable with gc between; "
                "random instances n=4..8 (split depth 0/1/2/MAX); the trait's DEFAULT apply_forall/exists/unique on a newtype function "
                "providing only the required methods; 13..16-variable operands with the automatic split depth; substitutions "
                "created on 4 threads at once; managers with 31..200 variables where sets/cubes/substitutions also name variables "
                "the operands do not depend on. distinct = distinct (kind, op, operands, set/cube/vector, order) with non-constant result.",
        "assumptions": ["truth-table model is the specification"],
        "jobs": [
            {"monitor": "c04_exh", "variant": "rel", "shards": 30},
            {"monitor": "c04_rand", "variant": "rel", "shards": 16},
            {"monitor": "c04_rand", "variant": "dbg", "shards": 8},
            {"monitor": "c04_rand", "variant": "st", "shards": 8},
            {"monitor": "c04_defaults", "variant": "rel", "shards": 6},
            # restrict on MTBDDs (sparse functions, negative literals on skipped levels)
            {"monitor": "c10_dd", "variant": "rel", "shards": 16},
            {"monitor": "c04_deep", "variant": "rel", "shards": 16},
            {"monitor": "c04_api", "variant": "rel", "shards": 6},
            {"monitor": "c04_api", "variant": "st", "shards": 6},
            {"monitor": "c04_wide", "variant": "rel", "shards": 8},
            {"monitor": "c04_wide", "variant": "dbg", "shards": 8},
            # substitutions created concurrently must get distinct ids (the id is the apply-cache key)
            {"monitor": "c06_subst_ids", "variant": "rel", "shards": 2, "nondeterministic": True},
        ],
        "require_counters": {"all": ["gc_between_substitutions"]},
    },
    "C09": {
        "level": "exploration",
        "exhaustive": True,
        "rule": "zbdd, n=3, 6 orders x threads {1,4}: empty/base/singleton; subset0/subset1/change x 256 families x 3 variables; "
                "union/intsec/diff x all 65536 pairs; make_node for every variable and every (hi,lo) whose variables lie below it; "
                "random families over 2..8 variables with add_vars between operations (split depth 0/1/2/MAX), family view vs interp "
                "vs eval; dense families over 13..16 variables on 2..8 workers with the automatic split depth. distinct = "
                "distinct (operation, operands, order) with non-empty result.",
        "assumptions": ["set definitions from the BooleanVecSet rustdoc, written pointwise on bit vectors"],
        "jobs": [
            {"monitor": "c09_exh", "variant": "rel", "shards": 12},
            {"monitor": "c09_rand", "variant": "rel", "shards": 16},
            {"monitor": "c09_rand", "variant": "dbg", "shards": 8},
            {"monitor": "c09_rand", "variant": "st", "shards": 8},
            # Boolean view: eval with hostile argument lists and after rejected (panicking) calls
            {"monitor": "c02_rand", "variant": "rel", "shards": 16},
            {"monitor": "c09_api", "variant": "rel", "shards": 6},
            {"monitor": "c09_api", "variant": "st", "shards": 6},
            {"monitor": "c09_deep", "variant": "rel", "shards": 16},
            {"monitor": "c09_deep", "variant": "dbg", "shards": 8, "tiers": ("thorough",)},
        ],
        "require_counters": {"all": ["add_vars", "make_node_calls"]},
    },
    "C10": {
        "level": "exploration",
        "exhaustive": True,
        "rule": "scalar layer: every ordered pair of 32 I64 values (0,1,-1,2,3,-7,MIN,MAX,MIN+1,MAX-1,+-inf,NaN,random) and 42 F64 "
                "values (-0.0, subnormals, +-MAX, +-inf, NaN payloads) x add/sub/mul/div (NumberBase and std operators), cmp/eq/hash, "
                "is_zero/one/nan, parse round trip, against i128 / IEEE reference arithmetic. Diagram layer: all 625x625 I64 and "
                "256x256 F64 function pairs over 2 variables x 6 operators in varying order on one manager (every operator follows every "
                "other on the same operands), both orders, threads 1/4, caches 2..4096; constants; random histories over 1..4 variables "
                "with min->max, add->sub, 0-g, g-0, 1*g, g/1, swapped operands, ite, restrict; canonicity; node_count; structural audit; "
                "gc frees inner nodes AND terminals exactly; terminal/inner capacity exhaustion returns OutOfMemory. distinct = distinct "
                "(type, operator, operand tables) with non-constant result.",
        "assumptions": ["ite with a non-0/1 condition is documented as unspecified and never issued", "MTBDD apply is single-threaded upstream"],
        "jobs": [
            {"monitor": "c10_scalar", "variant": "rel", "shards": 16},
            {"monitor": "c10_dd", "variant": "rel", "shards": 16},
            {"monitor": "c10_dd", "variant": "st", "shards": 8},
            {"monitor": "c10_dd", "variant": "dbg", "shards": 16, "tiers": ("thorough",)},
        ],
        "require_counters": {"all": ["pairs", "histories"]},
    },
    "C11": {
        "level": "exploration",
        "exhaustive": True,
        "rule": "tdd: 1 variable: all 27 functions, all 27x27 pairs x 8 operators, all 27^3 ite triples, not/not_owned/not_edge_owned, "
                "constants f/t/u, var, eval on all three-valued assignments, cofactors; 2 variables, both orders: all 19683 functions "
                "built and checked (unary ops on all in thorough), sampled pairs x 8 operators and ite triples biased to the special "
                "cases of the ite rule; operator mixes on the same operands with apply caches of 1..64 entries; 40-variable eval; "
                "random operator DAGs over 3..5 variables; structural audit and empty store at the end of every manager. Oracle: "
                "literal 3x3 Kleene / Lukasiewicz tables and the ite rule of the property, independent interpreter. distinct = distinct "
                "(operator, operand tables, order) with non-constant result.",
        "assumptions": ["eval with partial assignments is outside the property", "TDD has no multi-threaded apply (threads only change the worker pool)"],
        "jobs": [
            {"monitor": "c11_exh", "variant": "rel", "shards": 16},
            {"monitor": "c11_rand", "variant": "rel", "shards": 16},
            {"monitor": "c11_rand", "variant": "st", "shards": 8},
            {"monitor": "c11_rand", "variant": "pointer", "shards": 8},
            {"monitor": "c11_rand", "variant": "dbg", "shards": 8},
        ],
        "require_counters": {"all": ["pairs", "triples"]},
    },
    "C12": {
        "level": "exploration",
        "exhaustive": True,
        "rule": "Natural stand-alone: all ordered pairs of 46 boundary values (0,1,2^k-1,2^k,2^k+1 for k in {1,31,32,33,63,64,65,127,128,"
                "129,191,192,193,255,256}) built by 4 construction routes x add, shl/shr (lost-bit detection), cmp/eq/hash, clone, "
                "clone_from in all inline/heap combinations, Display/Binary/Octal/Hex with flags, mantissa/exp, TryFrom u64/u128, f64 "
                "conversion (round to nearest even), plus random operands up to 512 bits, against a schoolbook Vec<u32> bignum written "
                "in the monitor. sat_count: bdd/bcdd/zbdd x 6 orders x 256 functions x 24 values of vars (3,4,73,1100 and the integer/"
                "f64 boundaries) x 9 number types (Natural, Saturating<u64/u128>, F64, plain u32/u64/u128/i64/i128), fresh and shared "
                "caches, cache_all on/off; random functions with 4..12 (thorough 16) variables. Cache histories: ONE SatCountCache "
                "across builds, drop+gc+rebuild of different functions (recycled node ids), set_var_order, changes of vars. Natural "
                "also under Miri. distinct = distinct (kind, type, vars, table, order) / (operation, operand pair) cases.",
        "assumptions": ["ZBDD sat_count only for vars == num_vars (other values are not defined tightly enough to assert)"],
        "jobs": [
            {"monitor": "c12_natural", "variant": "rel", "shards": 16},
            {"monitor": "c12_natural", "variant": "dbg", "shards": 16},
            {"monitor": "c12_natural", "variant": "miri", "shards": 64, "only_shards": 16, "timeout": {"thorough": 3000}, "tiers": ("thorough",)},
            {"monitor": "c12_satcount", "variant": "rel", "shards": 16},
            {"monitor": "c12_satcount", "variant": "st", "shards": 8},
            # pointer-based manager: node ids are addresses (other bit patterns in cache keys), own gc/reorder epoch counters
            {"monitor": "c12_satcount", "variant": "pointer", "shards": 8},
            {"monitor": "c12_cache", "variant": "pointer", "shards": 8},
            {"monitor": "c12_cache", "variant": "rel", "shards": 16},
            {"monitor": "c12_cache", "variant": "dbg", "shards": 8},
        ],
        "require_counters": {"all": ["cache_reuse_after_gc", "cache_reuse_after_reorder", "saturated_results", "natural_shr_lossy_cases"]},
    },
    "C13": {
        "level": "exploration",
        "exhaustive": True,
        "rule": "{bdd,bcdd,zbdd} x 6 orders, n=3: all 256 functions x all 8 choice vectors (pick_cube and pick_cube_dd, choice "
                "protocol: once per level, node of that level) x all 27 literal sets (pick_cube_dd_set), judged by a reference walk "
                "over truth tables (forced / free / irrelevant per level); random n=4..8; pick_cube_uniform: no non-model, chi-square "
                "vs uniform over models on fixed seeds (threshold at z=6.2), also with one SatCountCache kept across set_var_order, gc, "
                "other handles and add_vars(1..3). distinct = distinct (kind, function, choice vector or "
                "literal set, order) where a real choice existed.",
        "assumptions": ["uniformity is a statistical statement (fixed seeds, p<1e-9 threshold)"],
        "jobs": [
            {"monitor": "c13_exh", "variant": "rel", "shards": 18},
            {"monitor": "c13_rand", "variant": "rel", "shards": 16},
            {"monitor": "c13_rand", "variant": "dbg", "shards": 8},
            {"monitor": "c13_rand", "variant": "st", "shards": 8},
            {"monitor": "c13_rand", "variant": "pointer", "shards": 8},
            {"monitor": "c13_uniform", "variant": "pointer", "shards": 7},
            {"monitor": "c13_uniform", "variant": "rel", "shards": 7},
        ],
        "require_counters": {"all": ["uniform_draws"]},
    },
    "C15": {
        "level": "fault_enumeration",
        "exhaustive": False,
        "rule": "round trips: bdd/bcdd/zbdd/mtbdd(i64,f64; ASCII) x 6 orders x 10 naming schemes (named, unnamed, partly, spaces, tabs, "
                "control characters, empty, unicode, colliding after sanitising, leading underscores/digits) x root subsets of the 256 "
                "three-variable functions x {ASCII, binary} x {2.0, 3.0} x {strict, not} x root names; random diagrams with 0..10 variables "
                "and unused variables; every export checked against an independent model of the header (names, support, order, level "
                "map, node count) and imported into the same manager (handle equality) and into fresh managers (table equality + "
                "structural audit); TDD export-only. Faults: every truncation point of 12 corpus files plus seeded mutations (bit flips, "
                "byte/line edits, header-count edits, node-number edits, splices): load+import must return, never panic; an Ok import "
                "must have the right roots, pass the structural audit and match an independent evaluation of the node lines. Huge "
                "header counts in a child process under ulimit. Dense random functions over 12..15 variables (thousands of nodes, "
                "1..3 roots) round-tripped in binary and ASCII into the same and a fresh manager. distinct = distinct round-trip configurations + distinct mutant files "
                "by outcome class.",
        "assumptions": ["host allocation failure for absurd header counts is observed, not judged", "the pointer backend is exercised by C20"],
        "jobs": [
            {"monitor": "c15_roundtrip", "variant": "rel", "shards": 16},
            {"monitor": "c15_malformed", "variant": "rel", "shards": 16},
            {"monitor": "c15_malformed", "variant": "dbg", "shards": 16},
            {"monitor": "c15_huge", "variant": "rel", "shards": 1},
            # files with thousands of nodes: node references and escaped bytes that small files never contain
            {"monitor": "c15_large", "variant": "rel", "shards": 8},
            {"monitor": "c15_large", "variant": "dbg", "shards": 8, "tiers": ("thorough",)},
        ],
        "require_counters": {"all": ["roundtrips", "truncations", "files_mutated", "import_errors"]},
    },
    "C07": {
        "level": "exploration",
        "rule": "three layers with one oracle (every result == truth-table model; at quiescence handles of all threads pairwise "
                "canonical, structural + reference-count audit, exact gc, empty store after teardown; no deadlock/abort). (1) Miri "
                "(tree borrows, data-race detector with weak-memory emulation, deadlock detection): tiny 2-thread scenarios on a "
                "2-worker manager, one Miri seed (= one deterministic interleaving) per shard. (2) cooperative token-passing scheduler "
                "on the oxidd_verif yield points (node allocation, slot return, level-lock acquisition incl. blocked waits, gc phases, "
                "edge clone/drop, Function::drop, cache get/add): seeded random schedules with switch probability 1/2..1/64 for 2..4 "
                "threads x 3..8 operations (apply, ite, not, quantify, apply-quantify, clone, drop, gc), and depth-first enumeration of "
                "ALL schedules with <= 1 (quick) / <= 2 (thorough) preemptions for 2 threads x 1..2 operations; a state where every "
                "unfinished thread waits for a lock is reported as deadlock by the scheduler. (3) free-running 2..4 application threads "
                "on managers with 1..8 workers and maximal split depth, 4..13 variables, random delays injected at the yield points; "
                "natively, with debug assertions, under ThreadSanitizer and AddressSanitizer. distinct = distinct interleaving "
                "signatures (hash of the (thread, site) sequence) + distinct checked results.",
        "assumptions": ["'for all interleavings' is sampled; exhaustive only for tiny scripts at hook granularity with bounded preemptions",
                        "deadlock freedom = bounded progress within the explored schedules", "scheduler runs use 1-worker managers so that only registered threads execute OxiDD code"],
        "jobs": [
            {"monitor": "c07_sched_rand", "variant": "rel", "shards": 16},
            {"monitor": "c07_sched_rand", "variant": "dbg", "shards": 8},
            {"monitor": "c07_sched_dfs", "variant": "rel", "shards": 12},
            {"monitor": "c07_mtbdd", "variant": "rel", "shards": 16},
            # operations while OxiDD's own background collector runs (repeatedly) alongside
            {"monitor": "c05_bg", "variant": "rel", "shards": 16},
            {"monitor": "c07_mtbdd", "variant": "dbg", "shards": 8},
            {"monitor": "c07_mtbdd", "variant": "tsan", "shards": 8, "nondeterministic": True},
            {"monitor": "c07_stress", "variant": "rel", "shards": 16, "parallel": 4, "nondeterministic": True},
            {"monitor": "c07_stress", "variant": "dbg", "shards": 8, "parallel": 4, "nondeterministic": True},
            {"monitor": "c07_stress", "variant": "pointer", "shards": 8, "parallel": 4, "nondeterministic": True},
            # substitutions created on several threads at once (ids are apply-cache keys)
            {"monitor": "c06_subst_ids", "variant": "rel", "shards": 2, "nondeterministic": True},
            # calling thread bound to another manager while it and the workers allocate / collect (shared free lists)
            {"monitor": "c14_nested", "variant": "rel", "shards": 8},
            {"monitor": "c14_nested", "variant": "dbg", "shards": 8},
            {"monitor": "c07_stress", "variant": "tsan", "shards": 8, "parallel": 4, "nondeterministic": True},
            {"monitor": "c07_stress", "variant": "asan", "shards": 8, "parallel": 4, "nondeterministic": True, "tiers": ("thorough",)},
            {"monitor": "c07_tiny", "variant": "tsan", "shards": 16, "nondeterministic": True},
            {"monitor": "c07_tiny", "variant": "miri", "shards": {"quick": 16, "thorough": 96}, "timeout": {"quick": 1500, "thorough": 3000}},
        ],
        "require_counters": {"all": ["schedules", "context_switches", "scenarios_enumerated_completely", "stress_rounds", "tiny_scenarios", "gcs_that_freed", "mtbdd_concurrent_scenarios"]},
    },
    "C16": {
        "level": "exploration",
        "exhaustive": True,
        "rule": "VarNameMap directly: ALL call sequences of length <= 5 (quick) / <= 6 (thorough) over add_unnamed(1|2), add_named([x]), "
                "add_named([x,y]), get_or_add(x), set_var_name(v,x), clone+drop(original), clone+drop(clone) with names from {\"\",a,b,c}, "
                "ended by drop or into_names_iter (full/reversed/partial/nth): after every call len, named_count, var_name(v) for all v, "
                "name_to_var for every name of the alphabet and an unused one, exact error values and state of rejected calls, against a "
                "Vec<String>+HashMap model; random sequences with unicode / very long / whitespace names; real managers (bdd, bcdd, zbdd, "
                "mtbdd, tdd): add_vars / add_named_vars / add_named_vars_from_map / set_var_name interleaved with handle creation, gc, "
                "set_var_order: num_vars == num_levels, names, maps inverse, every existing handle's table unchanged. distinct = call "
                "sequences containing a named variable.",
        "assumptions": ["memory leaks are recorded as observations (not part of the property)"],
        "jobs": [
            {"monitor": "c16_map_exh", "variant": "rel", "shards": 16},
            {"monitor": "c16_map_rand", "variant": "rel", "shards": 16},
            {"monitor": "c16_map_leak", "variant": "rel", "shards": 1},
            {"monitor": "c16_mgr", "variant": "rel", "shards": 16},
            {"monitor": "c16_mgr", "variant": "dbg", "shards": 8},
            # the pointer-based manager has its own add_vars / add_named_vars / level bookkeeping
            {"monitor": "c16_mgr", "variant": "pointer", "shards": 8},
            # histories with add_vars / add_named_vars / rejected batches / a panicking name iterator between operations
            {"monitor": "c03_hist", "variant": "rel", "shards": 16},
            {"monitor": "c03_hist", "variant": "pointer", "shards": 8},
            # Miri (manual memory management of the names): 1/64 of the sequence space per shard, ~3 min each
            {"monitor": "c16_map_exh", "variant": "miri", "shards": 64, "only_shards": 16, "param": "hard", "timeout": {"thorough": 3000}, "tiers": ("thorough",)},
        ],
        "require_counters": {"all": ["renames", "clones", "rejected_calls", "reorderings"]},
    },
    "C17": {
        "level": "exploration",
        "exhaustive": True,
        "rule": "RawTable<_, u32> and <_, usize>: EVERY operation sequence up to length 4 (6 keys) / 5 (3 keys) in quick, 5 / 6 / 7 (2 keys) in "
                "thorough over insert k, remove k (remove_entry and find+remove_at_slot), retain(even), retain(none), drain, drain dropped "
                "half-way, clear, clear_no_drop, reset_no_drop, reserve(2), reserve(13), clone-and-continue, from 5 start states (new, "
                "empty 16 slots, tombstone-rich, full, sparse 32 slots) under 6 adversarial hash functions (all 0, all u64::MAX, equal "
                "below bit 29, wrapping clusters, identity, multiplicative); after the last operation find/get/get_mut for all keys, len, "
                "iter/iter_mut exactly once, live-instance counts (double drop / leak), verif_audit(); table then consumed by into_iter / "
                "partial into_iter / drain / drop. Random grow/shrink sequences of 1e5..1e6 operations with audit + lookups after every "
                "operation. Hook: probe-step bound makes non-termination a deterministic panic. distinct = (hash function, start state, "
                "operation sequence) classes as described in the monitor's sample string.",
        "assumptions": ["allocator variants (new_in) are not exercised separately"],
        "jobs": [
            {"monitor": "c17_exh", "variant": "rel", "shards": 16},
            {"monitor": "c17_rand", "variant": "rel", "shards": 16},
            {"monitor": "c17_rand", "variant": "dbg", "shards": 8, "tiers": ("thorough",)},
            # element type without drop glue (needs_drop::<T>() == false paths)
            {"monitor": "c17_plain", "variant": "rel", "shards": 8},
            {"monitor": "c17_plain", "variant": "dbg", "shards": 8},
            {"monitor": "c17_rand", "variant": "miri", "shards": 56, "only_shards": 16, "param": "tiny", "timeout": {"thorough": 3000}, "tiers": ("thorough",)},
        ],
        "require_counters": {"all": ["grows", "rehashes_or_shrinks", "sequences"]},
    },
    "C18": {
        "level": "exploration",
        "exhaustive": True,
        "rule": "Circuit::simplify: exhaustive over all circuits with 1 gate x <=3 literals and 2 gates x <=2 literals for 0..3 inputs "
                "(thorough also 2 gates x <=3 literals for 0..2 inputs, 3 gates x <=2 literals for 0 inputs), seeded samples of the "
                "rest of the <=3/<=3/<=3 space and random circuits up to 8 inputs / 30 gates / 6 literals; alphabet = both constants, "
                "every input, unknown inputs len, len+1, UNDEF, every gate incl. self and forward references, both polarities; every "
                "gate and input as root. Oracle: own gate-list interpreter (truth tables), own cycle / unknown-input detection, the "
                "five normal-form conditions checked literally, gate map consistency. Parsers: all truncations and seeded byte "
                "mutations of DIMACS CNF/SAT, AIGER ascii/binary, NNF corpora under panic capture (overflow checks on); generated "
                "AIGs written as aag and aig must parse to equal Problems and compute the generator's truth tables; CNF/SAT/NNF "
                "semantic round trips. distinct = distinct circuits / distinct parser inputs by outcome.",
        "assumptions": ["inputs announcing > 65536 elements are skipped in-process (host allocation aborts are inconclusive by definition)",
                        "acceptance of every valid DIMACS file and correctness of decoded latch reset values are recorded as observations, not asserted (outside the property)"],
        "jobs": [
            {"monitor": "c18_simplify_exh", "variant": "rel", "shards": 16},
            {"monitor": "c18_simplify_rand", "variant": "rel", "shards": 16},
            {"monitor": "c18_parsers", "variant": "rel", "shards": 16},
            {"monitor": "c18_parsers", "variant": "asan", "shards": 8, "tiers": ("thorough",)},
        ],
        "require_counters": {"all": ["circuits", "errors_cycle", "errors_unknown_input", "parser_inputs", "parser_errors", "aiger_roundtrips"]},
    },
    "C19": {
        "level": "exploration",
        "rule": "the real C FFI code (crates/oxidd-ffi-c compiled as an rlib from the working tree) driven in-process: random call "
                "sequences over the bdd/bcdd/zbdd entry points (229-230 of the 239 exported symbols per shard: constructors, all "
                "connectives, ite, quantifiers, substitution, cofactors, node_count, sat_count, pick_cube*, eval, names, var/level maps, "
                "set_var_order, gc, DDDMP/DOT export, visualize, ref/unref), 2..5 variables, ample and tiny (2..14) node capacities, 1..3 "
                "threads, every call mirrored on a second manager through the Rust API: truth table through oxidd_*_eval == independent "
                "interpretation of the Rust result, node counts, names, maps; after EVERY call an exact reference-count audit of the C "
                "manager against an explicit ownership model, operands unchanged; invalid handles in every operand position must yield "
                "invalid handles; teardown in two orders: 0 inner nodes after unref-all + gc, store destroyed (LIVE_STORES hook) within "
                "2 s. Enumerated: 1969 (entry point x operand shape) calls in fresh managers + manager life-cycle patterns. Lifecycle: "
                "managers created and dropped at once must be freed. distinct = distinct (kind, function, argument shape) calls checked.",
        "assumptions": ["the FFI cannot run under Miri (ABI check on mirror structs); the Rust code behind it is covered by the C05/C07/C16 Miri jobs",
                        "C++/Python wrappers above the C ABI are not exercised", "functions documented to require valid handles are never fed invalid ones"],
        "jobs": [
            {"monitor": "c19_ffi", "variant": "rel", "shards": 16},
            {"monitor": "c19_ffi", "variant": "dbg", "shards": 8},
            {"monitor": "c19_ffi_enum", "variant": "rel", "shards": 16},
            {"monitor": "c19_lifecycle", "variant": "rel", "shards": 4},
            {"monitor": "c19_ffi", "variant": "asan", "shards": 8, "tiers": ("thorough",)},
        ],
        "require_counters": {"all": ["ffi_calls", "invalid_handles_returned", "refcount_audits", "managers_created_and_dropped"]},
    },
    "C20": {
        "level": "exploration",
        "cross_variant_digest": True,
        "rule": "one deterministic corpus (24 quick / 240 thorough generated histories per kind with apply, ite, quantify, substitute, "
                "restrict, cofactor, pick_cube_dd, clone/drop, gc, add_vars, reordering; plus 6 orders x 3 kinds of compact 3-variable "
                "suites: node counts of all 256 functions, 256x64 pairs x 8 operators, all quantifications, all pick_cube choice "
                "vectors) executed in every build variant: quick {index+cache+mt, pointer+cache+mt, index-nocache-st}; thorough all 8 "
                "of {index,pointer} x {cache,nocache} x {mt,st}; inside each variant with 1, 2 and 8 worker threads and, per history, "
                "split depths MAX, 0, 1, 2 and automatic (hand-over from the parallel to the sequential recursor). Each run is "
                "checked against the truth-table model and the structural/ref-count audits; per corpus item a digest (result tables, "
                "node counts, equality pattern, orders, cubes) must be identical across thread counts and across all variants. "
                "distinct = distinct corpus items whose digests were produced.",
        "assumptions": ["MTBDD is not part of the matrix (the pointer backend has no dynamic terminal manager upstream)"],
        "jobs": [
            {"monitor": "c20_digest", "variant": "rel", "shards": 16},
            {"monitor": "c20_digest", "variant": "pointer", "shards": 16},
            {"monitor": "c20_digest", "variant": "nocache-st", "shards": 16},
            {"monitor": "c20_digest", "variant": "nocache", "shards": 16, "tiers": ("thorough",)},
            {"monitor": "c20_digest", "variant": "st", "shards": 16, "tiers": ("thorough",)},
            {"monitor": "c20_digest", "variant": "pointer-nocache", "shards": 16, "tiers": ("thorough",)},
            {"monitor": "c20_digest", "variant": "pointer-st", "shards": 16, "tiers": ("thorough",)},
            {"monitor": "c20_digest", "variant": "pointer-nocache-st", "shards": 16, "tiers": ("thorough",)},
            # the shared history monitors on the other backend
            {"monitor": "c01_hist", "variant": "pointer", "shards": 8},
            {"monitor": "c05_hist", "variant": "pointer", "shards": 8},
            {"monitor": "c08_rand", "variant": "pointer", "shards": 8},
            {"monitor": "c06_diff", "variant": "pointer", "shards": 8},
            {"monitor": "c03_hist", "variant": "pointer", "shards": 8},
            # >= 65536 nodes on 4 workers: the concurrent paths of set_var_order, on both node stores
            {"monitor": "c08_large", "variant": "rel", "shards": 2, "parallel": 2},
            {"monitor": "c08_large", "variant": "pointer", "shards": 2, "parallel": 2},
            {"monitor": "c11_rand", "variant": "pointer", "shards": 8},
        ],
        "require_counters": {"all": ["histories", "suites", "digests_compared_across_variants"]},
    },
    "C08": {
        "level": "exploration",
        "exhaustive": True,
        "rule": "n=3: all 6 source orders x all 12 requests (total and partial, len>=2) x {set_var_order, _seq} with all 256 "
                "functions alive; n=4: all 24 sources x total requests (+partial sampled in quick, all in thorough) with "
                "sampled live functions and dead nodes; n=5..8 random. Oracle: requested relative order, brute-force minimal "
                "adjacent swaps, tables unchanged, structure + ref-count audit, node_count minimal, rebuilt function == "
                "surviving handle, then ops + gc + second reordering + teardown. distinct = distinct (kind, source, request, "
                "variant) cases needing >= 1 swap.",
        "assumptions": ["minimality brute-forced for n <= 7 only", "a ZBDD case whose handles changed meaning is reported once and not explored further (no cascade)"],
        "jobs": [
            {"monitor": "c08_exh", "variant": "rel", "shards": 32},
            {"monitor": "c08_rand", "variant": "rel", "shards": 16},
            {"monitor": "c08_large", "variant": "rel", "shards": {"quick": 4, "thorough": 16}, "parallel": 4},
            {"monitor": "c08_large", "variant": "dbg", "shards": {"quick": 2, "thorough": 8}, "parallel": 4},
            {"monitor": "c08_large", "variant": "tsan", "shards": 2, "parallel": 2, "tiers": ("thorough",)},
            # MTBDD and TDD: reorderings with live nodes inside their history monitors (tables unchanged, exact
            # node counts for the new order / rebuilt function identical, audit); TDD also on the pointer-based manager
            {"monitor": "c10_dd", "variant": "rel", "shards": 16},
            {"monitor": "c11_rand", "variant": "rel", "shards": 16},
            {"monitor": "c11_rand", "variant": "pointer", "shards": 8},
            {"monitor": "c08_rand", "variant": "dbg", "shards": 16},
        ],
        "require_counters": {"all": ["reorder_cases", "gcs_that_freed", "concurrent_sort_preconditions_met", "large_reorderings", "reorderings_with_live_nodes", "concurrent_reorderings_moving_an_odd_number_of_levels"]},
    },
    "C02": {
        "level": "exploration",
        "exhaustive": True,
        "rule": "n=3: every ordered pair of the 256 functions x 8 binary operators, not/not_owned/cofactors/"
                "satisfiable/valid for every function, ite triples (quick: 1/16 sample; thorough: all 2^24), for "
                "{bdd,bcdd,zbdd} x 6 variable orders x threads {1,4}; n=4..8 random operands (split depth 0/1/2/MAX, eval with "
                "shuffled / repeated / omitted arguments); single-threaded function types (variant st); 13..16-variable dense "
                "operands on 2..8 workers with the automatic split depth; managers with 31..200 variables and functions over 6 "
                "scattered active ones, evaluated on assignments of all variables; every `*_edge` entry point of the shipped types "
                "and every trait default of BooleanFunction on types with only the required methods. distinct = distinct "
                "(kind, operator, operand tables, order, threads) tuples whose result is not constant.",
        "assumptions": ["truth-table model in harness/src/tt.rs is the specification",
                        "exhaustive only for 3 variables; larger n sampled from VERIF_SEED"],
        "jobs": [
            {"monitor": "c02_pairs", "variant": "rel", "shards": 36},
            {"monitor": "c02_rand", "variant": "rel", "shards": 16},
            {"monitor": "c02_rand", "variant": "dbg", "shards": 8},
            {"monitor": "c02_pairs", "variant": "pointer", "shards": 36, "tiers": ("thorough",)},
            {"monitor": "c02_rand", "variant": "pointer", "shards": 8},
            # the single-threaded function types (no `multi-threading` feature) are separate code
            {"monitor": "c02_rand", "variant": "st", "shards": 8},
            {"monitor": "c02_pairs", "variant": "st", "shards": 36, "tiers": ("thorough",)},
            # automatic split depth: parallel -> sequential hand-over in the middle of an operation
            {"monitor": "c02_deep", "variant": "rel", "shards": 16},
            # 31..200 variables: bit-set word boundaries in eval / pick_cube / level maps
            # edge-level entry points of the shipped types + trait defaults on types with only the required methods
            {"monitor": "c02_api", "variant": "rel", "shards": 6},
            {"monitor": "c02_api", "variant": "st", "shards": 6},
            {"monitor": "c02_wide", "variant": "rel", "shards": 8},
            {"monitor": "c02_wide", "variant": "dbg", "shards": 8},
            {"monitor": "c02_deep", "variant": "dbg", "shards": 8, "tiers": ("thorough",)},
        ],
        "require_counters": {"all": ["cases_with_at_least_split_depth_levels"]},
    },
}

HOOK_COMMITS = ['80fb3bbcc8d132db20ab96212733b3813c7bf871', '2dc4f85ea148049a5963f1c757f3d318d4996439', '2651018efa7abaad5c14a39704064549b045ccb8', 'e3facf511f2781e84fd357182b0b721f4a29773e']

MANIFEST_TEXT = {
    "C19": {
        "text": "Held on every executed call sequence: the real FFI code is driven in-process and mirrored call-by-call on the Rust "
                "API; results, node counts, names and maps agree; an exact reference-count audit against an explicit ownership model "
                "runs after every call; invalid operands propagate; after releasing everything the manager holds no nodes and is "
                "destroyed.",
        "design_ref": "DESIGN.md section 5 / C19",
        "note": "Trusted: mirror structs of the C handle types in harness/src/mon/c19.rs; LIVE_STORES hook counter.",
        "technique": "runtime monitoring: differential execution C API vs Rust API + ownership model with reference-count audit after every call",
    },
    "C20": {
        "text": "Held on the executed corpus: every configuration is checked against the model and the audits on its own, and the "
                "digests of all corpus items agree across thread counts and across the build variants (3 in quick, all 8 in thorough).",
        "design_ref": "DESIGN.md section 5 / C20",
        "note": "Trusted: the corpus generator is deterministic and identical in every variant (same harness source, different cargo features).",
        "technique": "runtime monitoring: differential execution of one recorded corpus across build configurations + reference-model and audit oracles",
    },
    "C18": {
        "text": "Held on every executed case: all small circuits of the enumerated sub-spaces and sampled larger ones are simplified "
                "and compared by truth table, normal form and gate map; cyclic / unknown-input circuits must yield Err; millions of "
                "truncated and mutated parser inputs must return Ok or a diagnostic; ASCII/binary AIGER twins must parse equal.",
        "design_ref": "DESIGN.md section 5 / C18",
        "note": "Trusted: circuit interpreter and file writers in harness/src/mon/c18.rs. The full <=3/<=3/<=3 circuit space (1.6e13) is sampled, sub-spaces are exhaustive.",
        "technique": "runtime monitoring: truth-table oracle over exhaustively enumerated small circuits + mutation/truncation fuzzing under panic capture",
    },
    "C16": {
        "text": "Held on every executed case: all call sequences up to length 5/6 on the name map against a Vec+HashMap model with every "
                "lookup re-checked after every call; random unicode sequences; real managers of five kinds with handles, gc and "
                "reordering in between; the exhaustive monitor also under Miri (manual memory management of the names).",
        "design_ref": "DESIGN.md section 5 / C16",
        "note": "Trusted: name model in harness/src/mon/c16.rs. ZBDD managers with nodes are never reordered (known finding C08).",
        "technique": "runtime monitoring: reference-model oracle over exhaustive short call sequences + seeded random sequences, Miri for memory safety",
    },
    "C17": {
        "text": "Held on every executed sequence: exhaustive short operation sequences over adversarial hash functions and start states "
                "plus long random grow/shrink sequences, each compared with a BTreeSet model and the table's internal accounting "
                "(verif_audit hook); probe loops are bounded by a hook so that non-termination is an event, not a timeout.",
        "design_ref": "DESIGN.md section 5 / C17",
        "note": "Trusted: BTreeSet model, audit hook in linear-hashtbl (cfg oxidd_verif).",
        "technique": "runtime monitoring: set reference model + invariant hook (slot accounting, probe bound) over exhaustive and random operation sequences",
    },
    "C12": {
        "text": "Held on every executed case: exact agreement of Natural with an independent schoolbook big integer on all boundary "
                "pairs and random operands; sat_count for every number type equal to popcount(table)*2^(vars-n) (exact / saturated "
                "/ within float precision) for all 3-variable functions, orders and kinds, with fresh and reused caches across gc, "
                "reordering and changing variable counts.",
        "design_ref": "DESIGN.md section 5 / C12",
        "note": "Trusted: schoolbook bignum and popcount model in harness/src/mon/c12.rs.",
        "technique": "runtime monitoring: independent big-integer oracle + truth-table model counts over exhaustive boundary sets and seeded histories (Natural also under Miri)",
    },
    "C07": {
        "text": "Held on every explored schedule: Miri seeds, seeded and exhaustively enumerated (bounded-preemption) schedules of a "
                "cooperative scheduler on hook points, and free-running stress under TSan/ASan/debug assertions, all judged by the "
                "model, canonicity, audit and exact-gc oracles at quiescence.",
        "design_ref": "DESIGN.md section 5 / C07",
        "note": "Trusted: hooks sit between critical sections (MANIFEST.hooks); a break that removes a lock also removes the yield point in front of it, hence the hook-independent Miri/TSan layers.",
        "technique": "runtime monitoring: Miri + ThreadSanitizer/ASan + seeded/enumerated cooperative scheduling on yield-point hooks, with model/audit oracles",
    },
    "C15": {
        "text": "Every generated export was re-imported (same and fresh managers) and compared with the model and an independent "
                "header model; every truncation point and thousands of seeded mutations of valid files were fed to the importer, which "
                "must return an error or a well-formed diagram. One recorded known finding (format 2.0 cannot carry names of unused "
                "variables).",
        "design_ref": "DESIGN.md section 5 / C15",
        "note": "Trusted: sanitising / header model in harness/src/mon/c15.rs. Mutations are sampled; truncations are complete for files < 4 KB.",
        "technique": "runtime monitoring with fault enumeration: round-trip oracle + truncation/mutation sweep under panic capture",
    },
    "C10": {
        "text": "Held on every executed case: all scalar boundary pairs for both terminal types against exact reference arithmetic; "
                "all function pairs over 2 variables from a 5-value palette under all six operators interleaved on one manager; random "
                "histories with operator mixes on the same operands; canonicity, exact collection of nodes and terminals, capacity "
                "exhaustion of the terminal table.",
        "design_ref": "DESIGN.md section 5 / C10",
        "note": "Trusted: i128 / IEEE-754 reference arithmetic and the value-table interpreter in harness/src/mon/c10.rs.",
        "technique": "runtime monitoring: value-table reference model over exhaustive 2-variable pairs + seeded histories",
    },
    "C11": {
        "text": "Held on every executed case: complete for one variable (all functions, pairs, ite triples), all 19683 two-variable "
                "functions built under both orders with sampled operand tuples, against literal three-valued truth tables and an "
                "independent interpreter; operator mixes with tiny caches; random DAGs over 3..5 variables.",
        "design_ref": "DESIGN.md section 5 / C11",
        "note": "Trusted: literal truth tables in harness/src/mon/c11.rs. Partial-assignment eval not asserted.",
        "technique": "runtime monitoring: three-valued reference-model oracle over exhaustive 1-variable and sampled 2..5-variable executions",
    },
    "C03": {
        "text": "Held at every quiescent point observed: the complete structural invariant is re-derived from the public "
                "Manager API after every single step of reorder-, add_vars- and OutOfMemory-rich histories (and at the audit "
                "points of the C01/C05/C06/C08/C14 monitors), for bdd, bcdd, zbdd; also with OxiDD's debug assertions on.",
        "design_ref": "DESIGN.md section 4.3 and 5 / C03",
        "note": "Trusted: audit code, minimal-size model. Nothing is asserted while an operation is in progress.",
        "technique": "runtime monitoring: invariant hook (structural audit through the public API) after every step of generated histories",
    },
    "C05": {
        "text": "Held at every audit point: exact per-node reference counts, exact collections (stored == reachable, return value), "
                "unchanged tables across explicit and background collections, slot conservation by a black-box capacity probe.",
        "design_ref": "DESIGN.md section 4.4, 4.5 and 5 / C05",
        "note": "Trusted: the harness registry knows every live handle. Background collections are observed, not scheduled.",
        "technique": "runtime monitoring: reference-count audit + reachability oracle + capacity probe over generated histories",
    },
    "C06": {
        "text": "Held on every replay: identical digests across cache capacities 1..65536 and fresh/warmed managers, every result "
                "equal to the model, on histories built to provoke key mix-ups and stale entries.",
        "design_ref": "DESIGN.md section 5 / C06",
        "note": "A stale entry is visible only if its slot is reused or the result differs: histories drop, collect and rebuild around every collection.",
        "technique": "runtime monitoring: differential replay across cache configurations + reference-model oracle",
    },
    "C14": {
        "text": "Every node capacity from 0 to demand+2 was the limit in some run of every script, so each allocation site of each "
                "scripted operation failed at least once; all post-conditions of the property were checked after every operation. "
                "Two operations without error channel abort the process: recorded as known findings.",
        "design_ref": "DESIGN.md section 5 / C14",
        "note": "Capacities < 100 only (background collector off, deterministic).",
        "technique": "runtime monitoring with fault enumeration: capacity sweep, model + audit oracles after every operation",
    },
    "C04": {
        "text": "Held on every executed case: exhaustive over 3 variables for the plain quantifiers, restrict and (thorough) "
                "the combined apply-quantify forms; 17^3 substitution vectors with a reused Subst object; interleaved "
                "substitutions across gc; seeded random instances up to 8 variables, 1 and 4 threads, tiny and large caches.",
        "design_ref": "DESIGN.md section 5 / C04",
        "note": "Trusted: truth-table model. ZBDD has no quantifier/substitution API (restrict only).",
        "technique": "runtime monitoring: reference-model oracle over exhaustive n=3 + seeded random executions",
    },
    "C09": {
        "text": "Held on every executed case: all families over 3 variables for every set operation and make_node under all "
                "orders; random families with variables added between operations, family/Boolean views cross-checked.",
        "design_ref": "DESIGN.md section 5 / C09",
        "note": "Trusted: set-level definitions written in the monitor.",
        "technique": "runtime monitoring: set-family reference model over exhaustive n=3 + seeded random histories",
    },
    "C13": {
        "text": "Held on every executed case: exhaustive over 3 variables (functions x choice vectors x literal sets x orders x "
                "kinds) against a reference walk that classifies each level as forced / free / irrelevant; statistical test of "
                "pick_cube_uniform on fixed seeds.",
        "design_ref": "DESIGN.md section 5 / C13",
        "note": "Trusted: truth tables, reference walk. 'Arbitrary choice' cases accept any value. ZBDD judged by the weaker documented contract.",
        "technique": "runtime monitoring: reference-walk oracle over exhaustive n=3, random n<=8, chi-square test for uniform sampling",
    },
    "C01": {
        "text": "Held on every generated history: after each of several thousand steps per run the result handle is compared "
                "pairwise (==, Hash, Ord) with all live handles against independent truth tables, across gc, add_vars, "
                "reordering, drops on other threads; also with OxiDD's debug assertions enabled.",
        "design_ref": "DESIGN.md section 5 / C01",
        "note": "Trusted: truth-table model, interpreter. Histories are sampled; equality only checked among handles the harness holds.",
        "technique": "runtime monitoring: history generator + reference-model oracle + pairwise canonicity check after every step",
    },
    "C08": {
        "text": "Held on all enumerated (n=3 complete, n=4 all total requests) and sampled reorderings: order, brute-force "
                "swap minimality, every live function unchanged, structural and reference-count audits, canonicity of "
                "rebuilt functions, follow-up operations/gc/second reordering.",
        "design_ref": "DESIGN.md section 5 / C08",
        "note": "Trusted: truth tables, audits. MTBDD/TDD reordering covered by their own monitors; concurrent bubble sort by the large-diagram job.",
        "technique": "runtime monitoring: exhaustive small-scope enumeration of reorderings with model, audit and minimal-swap oracles",
    },
    "C02": {
        "text": "Held on every executed case: exhaustive for 3 variables (all operand pairs, all/sampled ite triples, all "
                "orders, 3 kinds, 1 and 4 threads with maximal split depth) against a pointwise truth-table model, eval "
                "cross-checked against an independent node-by-node interpreter; random operands for 4..8 variables.",
        "design_ref": "DESIGN.md section 5 / C02",
        "note": "Trusted: harness truth-table model and interpreter. Not covered: n>3 exhaustively, operand tuples never generated.",
        "technique": "runtime monitoring: reference-model oracle (truth tables) over exhaustive n=3 + seeded random executions",
    },
}

# Additions made after the seeded-change rounds (DESIGN.md sections 7 and 12): what the checks cover in
# addition to the description above.
_EXTRA = {
    "C01": " Also: rejected and panicking add_named_vars batches and level-wise gc inside the histories; MTBDD and TDD value-table canonicity inside their history monitors (incl. reordering with live nodes); 786k-node diagrams rebuilt after concurrent reorderings on 2..8 workers.",
    "C02": " Also: every split depth and hostile eval argument lists (shuffled, repeated, omitted, after rejected calls); 13..16-variable operands under the automatic split depth; managers with 31..200 variables; every edge-level entry point and every trait default of BooleanFunction; single-threaded function types and the pointer-based manager.",
    "C03": " Also: both node stores; after every variable-bookkeeping call of the C16 manager monitor; after concurrent reorderings of 786k-node diagrams; after every accepted DDDMP import of damaged and mutated files.",
    "C04": " Also: every split depth; 13..16-variable operands under the automatic split depth; managers with 31..200 variables; edge-level entry points, the trait-default apply-quantify forms, concurrently created substitutions, MTBDD restrict.",
    "C05": " Also: a large-store probe (66000..150000 slots, chunked pre-allocation), MTBDD terminals, histories run from inside a scope of a second manager.",
    "C06": " Also: on the pointer-based manager; level-wise gc, rejected variable batches and concurrently created substitutions between repetitions.",
    "C07": " Also: on the pointer-based manager, with concurrently created substitutions, and with the calling thread bound to another manager.",
    "C08": " Also: model counts of sub-functions through a cache kept across the reorderings; 786k-node diagrams on 2..8 workers (concurrent paths, empty levels, odd level counts); MTBDD and TDD reorderings with live nodes (TDD on both node stores).",
    "C09": " Also: every split depth; dense families over 13..16 variables under the automatic split depth; edge-level entry points; eval after rejected calls; single-threaded function types.",
    "C10": " Also: reorderings with live nodes and exact node/terminal counts for the new order; single-threaded function types.",
    "C11": " Also: reorderings of 200 live functions (both node stores); eval with omitted / repeated arguments, also over 40 variables.",
    "C12": " Also: epoch and variable count changing in the same call; single-threaded function types and the pointer-based manager.",
    "C13": " Also: one sampling cache kept across reordering, other handles, gc, add_vars and dropped-and-recollected functions; single-threaded function types and the pointer-based manager.",
    "C14": " Also: the sweeps repeated from inside a scope of a second manager (allocation paths of threads bound to another store, with and without worker threads) and for DDDMP imports.",
    "C15": " Also: files with thousands of nodes, imports into larger managers, numbers beyond 64 bits, multi-byte names.",
    "C16": " Also: the manager monitor on both node stores; histories with rejected batches and a panicking name iterator.",
    "C17": " Also: an element type without drop glue.",
    "C18": " Also: variable orders given as trees with name records before and after them.",
    "C20": " Also: 786k-node reorderings and the TDD history monitor on the pointer-based manager; every history also at split depths 0, 1, 2 and automatic with 2 and 8 workers.",
}
for _k, _v in _EXTRA.items():
    MANIFEST_TEXT[_k]["text"] += _v
MANIFEST_TEXT["C08"]["note"] = "Trusted: truth tables, audits. Minimal-swap oracle brute-forced for n <= 7 only."
MANIFEST_TEXT["C11"]["note"] = "Trusted: literal truth tables in harness/src/mon/c11.rs."
MANIFEST_TEXT["C16"]["note"] = "Trusted: name model in harness/src/mon/c16.rs."
