#!/usr/bin/env python3
"""Regenerate /verif/MANIFEST.json from driver/plan.py (run after editing the plan)."""
import json, os, subprocess, sys
ROOT = os.path.dirname(os.path.dirname(os.path.abspath(__file__)))
sys.path.insert(0, os.path.join(ROOT, "driver"))
from plan import PLAN, MANIFEST_TEXT, HOOK_COMMITS  # noqa

props = [json.loads(l) for l in open(os.path.join(ROOT, "properties.jsonl"))]
checks, na = [], []
for p in props:
    pid = p["id"]
    if pid in PLAN:
        pl = PLAN[pid]
        txt = MANIFEST_TEXT[pid]
        checks.append({
            "property_id": pid,
            "quick_cmd": f"./check {pid} --tier quick",
            "thorough_cmd": f"./check {pid} --tier thorough",
            "evidence_file": f"/verif/evidence/{pid}.json",
            "replay_cmd_template": "./check replay {path}",
            "engine": "vh",
            "level_claimed": {"category": pl.get("level", "exploration"), "text": txt["text"], "design_ref": txt["design_ref"]},
            "level_note": txt["note"],
            "technique": txt["technique"],
        })
    else:
        na.append({"property_id": pid, "reason": "check not built yet in this session (work in progress; see DESIGN.md section 11)"})
m = {
    "version": 1,
    "setup_cmd": "./check setup",
    "hooks": {
        "guard": "--cfg oxidd_verif",
        "enable": "RUSTFLAGS='--cfg oxidd_verif' (set by driver/check.py for every build variant; harness crate /verif/harness has path dependencies into /repo/crates)",
        "baseline_off_cmd": "cd /repo && cargo nextest run --workspace --no-fail-fast --test-threads 8 --offline || cargo test --workspace --no-fail-fast --offline",
        "source_commits": HOOK_COMMITS,
        "add_only": True,
    },
    "engines": [{
        "name": "vh", "path": "/verif/harness",
        "serves_properties": sorted(PLAN),
        "kind_free_text": "Rust harness: reference-model monitors, structural/ref-count audits, history checkers; run natively with hooks, with debug assertions, under Miri/ASan/TSan/valgrind by driver/check.py; every workload in a child process",
    }],
    "checks": checks,
    "notes": "Runtime monitoring only. Exit 0 held / 1 VIOLATION / 2 INCONCLUSIVE (never printed as VIOLATION). known_findings.json lists recorded genuine defects.",
    "not_applicable": na,
}
json.dump(m, open(os.path.join(ROOT, "MANIFEST.json"), "w"), indent=1)
print("checks:", [c["property_id"] for c in checks], "n/a:", len(na))
