#!/usr/bin/env python3
"""Rewrite the '* **As built (driver/plan.py):**' line of every property in DESIGN.md section 5 from driver/plan.py."""
import os, re, sys
sys.path.insert(0, os.path.dirname(os.path.abspath(__file__)))
from plan import PLAN
ROOT = os.path.dirname(os.path.dirname(os.path.abspath(__file__)))
p = os.path.join(ROOT, "DESIGN.md")
lines = open(p).read().split("\n")
cur = None
n = 0
def jobs(plan):
    out = []
    for j in plan["jobs"]:
        t = j.get("tiers")
        out.append(f"{j['monitor']}@{j['variant']}" + (f"({'/'.join(t)})" if t else ""))
    return "; ".join(out)
for i, l in enumerate(lines):
    m = re.match(r"^### (C\d\d) ", l)
    if m:
        cur = m.group(1)
    elif l.startswith("## "):
        cur = None
    if cur and l.startswith("* **As built (driver/plan.py):**"):
        lines[i] = f"* **As built (driver/plan.py):** {PLAN[cur]['rule']} Jobs: {jobs(PLAN[cur])}."
        n += 1
open(p, "w").write("\n".join(lines))
print(n, "as-built lines rewritten")
