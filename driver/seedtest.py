#!/usr/bin/env python3
"""Apply a seeded change (patch) to /repo's working tree, run the given checks, undo it.

  driver/seedtest.py <patch.diff> <Cxx> [<Cyy> ...] [--tier quick|thorough] [--seed N]

Prints, per check, whether it raised a VIOLATION (exit 1), stayed silent (0) or was inconclusive (2).
The patch is always reverted (git checkout -- . ; git clean for new files listed in the patch)."""
import subprocess, sys, os, re, json
args = sys.argv[1:]
tier, seed = "quick", "1"
if "--tier" in args:
    i = args.index("--tier"); tier = args[i + 1]; del args[i:i + 2]
if "--seed" in args:
    i = args.index("--seed"); seed = args[i + 1]; del args[i:i + 2]
record = None
if "--record" in args:
    i = args.index("--record"); record = args[i + 1]; del args[i:i + 2]
patch, checks = os.path.abspath(args[0]), args[1:]
def sh(c, **k):
    return subprocess.run(c, shell=True, text=True, capture_output=True, **k)
st = sh("git -C /repo status --porcelain").stdout.strip()
if st:
    print("refusing: /repo working tree is not clean:\n" + st); sys.exit(3)
r = sh(f"git -C /repo apply --whitespace=nowarn {patch}")
if r.returncode != 0:
    print("patch does not apply:", r.stderr); sys.exit(3)
results = {}
# the evidence files must describe runs on the unchanged tree: keep them
saved = {}
for c in checks:
    f = f"/verif/evidence/{c}.json"
    if os.path.exists(f):
        saved[f] = open(f).read()
try:
    for c in checks:
        p = sh(f"./check {c} --tier {tier} --seed {seed}", cwd="/verif")
        sigs = re.findall(r"^  sig: (.*)$", p.stdout, re.M)
        results[c] = {"exit": p.returncode, "sigs": sigs[:8], "tail": p.stdout.strip().splitlines()[-1] if p.stdout.strip() else ""}
        print(f"{c}: exit {p.returncode} sigs {sigs[:6]}")
finally:
    sh("git -C /repo checkout -- .")
    for f, content in saved.items():
        open(f, "w").write(content)
    new = sh("git -C /repo status --porcelain").stdout
    for line in new.splitlines():
        if line.startswith("??"):
            sh(f"rm -rf /repo/{line[3:].strip()}")
print(json.dumps(results))
if record:
    d = os.path.join("/verif/seeded", record)
    os.makedirs(d, exist_ok=True)
    f = os.path.join(d, "detection.json")
    old = json.load(open(f)) if os.path.exists(f) else {"runs": []}
    head = sh("git -C /verif rev-parse --short HEAD").stdout.strip()
    old["runs"].append({"verif_commit": head, "tier": tier, "seed": int(seed), "results": results})
    old["detected_by"] = sorted({c for r in old["runs"] for c, v in r["results"].items() if v["exit"] == 1})
    old["silent"] = sorted({c for r in old["runs"] for c, v in r["results"].items() if v["exit"] == 0} - set(old["detected_by"]))
    json.dump(old, open(f, "w"), indent=1)
